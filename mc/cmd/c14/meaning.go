package main

// "Decide by meaning": when the k-th execution of a plan sends a different text than a fresh plan under the same
// window, both statement lists are executed by the ClickHouse-subset interpreter verif/mc/chsim on one small
// "universal" database (rows chosen so that every documented deviation changes a result) and the results are
// compared.  The verdict is an independent confirmation of the classification by explanation:
//   - a difference classified benign_* must be result-equal here, otherwise it is escalated to a violation;
//   - a difference classified as a defect is annotated with what chsim saw (different rows / statement fails).
// A small database cannot prove two different texts equivalent, so "equal here" never clears an unexplained
// difference.

import (
	"errors"
	"fmt"
	"sort"
	"strings"

	"verif/mc/chsim"
)

var universalDB = buildUniversalDB()

func buildUniversalDB() *chsim.DB {
	db := chsim.NewDB()
	type series struct {
		fp     uint64
		labels map[string]string
	}
	ss := []series{
		{1, map[string]string{"a": "b", "c": "d"}},
		{2, map[string]string{"a": "b", "c": "e", "e": "f1", "g": "x"}},
		{3, map[string]string{"a": "z", "c": "d"}},
		{4, map[string]string{"a": "b", "job": "x", "__name__": "up"}},
	}
	lines := []string{"a.b", "axb", "ABC", "abc", "A+C", "AAC", "a+c", "a$b x", "x", "z x", `{"y":"1","x":"y"}`, `{"y":"7"}`, "x=1 y=2", "x%_y", "it's",
		"500 GET /x", "404 POST /y", `{"code":"500","y":"1"}`, `{"code":"404"}`, "code=500 x=1"}
	var ts, smp [][]chsim.Value
	for _, d := range []string{"2024-03-10", "2024-03-11"} {
		for _, s := range ss {
			ts = append(ts, []chsim.Value{d, s.fp, chsim.LabelsJSON(s.labels), "", uint64(1)})
		}
	}
	// the three windows of both advances: base, base+1s/2s, base+13h, base+26h (each 5 minutes long)
	for _, off := range []int64{0, 13 * 3600, 26 * 3600} {
		for i, s := range ss {
			for j, l := range lines {
				t := (baseFrom.Unix()+off)*1e9 + int64(3+i+4*j)*1e9 // 20 lines x 4 streams inside the 5-minute window
				smp = append(smp, []chsim.Value{s.fp, t, float64(j + 1), l, uint64(1)})
			}
		}
	}
	db.AddQrynTable("time_series", ts)
	db.AddQrynTable("samples_v3", smp)
	var tr [][]chsim.Value
	for _, off := range []int64{0, 13 * 3600, 26 * 3600} {
		for i := 0; i < 4; i++ {
			t := (baseFrom.Unix()+off)*1e9 + int64(5+i)*1e9
			tags := chsim.Array{
				chsim.Tuple{"a", []string{"b", "b", "q", "b"}[i]}, chsim.Tuple{"c", []string{"d", "x", "d", "dd"}[i]},
				chsim.Tuple{"x", fmt.Sprint(i + 1)}, chsim.Tuple{"span.foo", fmt.Sprint(10 * (i + 1))}, chsim.Tuple{"foo", "1"},
				chsim.Tuple{"resource.x", fmt.Sprint(5 * i)}, chsim.Tuple{"name", "x"},
			}
			tr = append(tr, []chsim.Value{"0", fmt.Sprintf("%032x", 0xa0+i/2), fmt.Sprintf("%016x", 0xb0+i), "", "x", t, int64(2e9), "svc", int64(1), "", tags})
		}
	}
	db.AddQrynTable("traces_input", tr)
	if err := db.MaterializeAll(); err != nil {
		panic(err)
	}
	for _, t := range []string{"samples_v3", "time_series", "time_series_gin", "metrics_15s", "tempo_traces", "tempo_traces_attrs_gin", "tempo_traces_kv"} {
		if db.Table(t) != nil {
			db.Alias(t, t+"_dist")
		}
	}
	return db
}

// runOnChsim executes one statement list; the result is a canonical string per statement or an error class.
func runOnChsim(out string) (res []string, verdict string) {
	if strings.HasPrefix(out, "ERR") || strings.HasPrefix(out, "PLANERR") {
		return nil, "planner_error"
	}
	for _, st := range strings.Split(out, sep) {
		r, err := universalDB.Query(st)
		if err != nil {
			var se *chsim.SyntaxError
			var ee *chsim.EvalError
			switch {
			case errors.Is(err, chsim.ErrUnsupported):
				return nil, "unsupported"
			case errors.As(err, &se):
				res = append(res, "FAILS(syntax)")
			case errors.As(err, &ee):
				res = append(res, "FAILS("+ee.Code+")")
			default:
				res = append(res, "FAILS")
			}
			continue
		}
		rows := make([]string, len(r.Rows))
		for i, row := range r.Rows {
			cells := make([]string, len(row))
			for j, c := range row {
				cells[j] = chsim.Format(c)
			}
			rows[i] = strings.Join(cells, "\t")
		}
		sort.Strings(rows)
		res = append(res, fmt.Sprintf("%d rows\n%s", len(rows), strings.Join(rows, "\n")))
	}
	return res, "ok"
}

// meaning compares got and want on the universal database:
// "equal", "differ: …", "got_fails: …", "both_fail", "unsupported".
func meaning(m Mismatch) string {
	g, gv := runOnChsim(m.Got)
	w, wv := runOnChsim(m.Want)
	if gv != "ok" || wv != "ok" {
		return "unsupported"
	}
	if len(g) != len(w) {
		return fmt.Sprintf("differ: %d statements instead of %d", len(g), len(w))
	}
	for i := range g {
		gf, wf := strings.HasPrefix(g[i], "FAILS"), strings.HasPrefix(w[i], "FAILS")
		switch {
		case gf && wf:
			continue
		case gf:
			return fmt.Sprintf("got_fails: statement %d of the re-execution is rejected %s, the fresh plan's runs (%s)", i, g[i], firstLine(w[i]))
		case wf:
			return fmt.Sprintf("differ: statement %d of the fresh plan is rejected %s", i, w[i])
		case g[i] != w[i]:
			return fmt.Sprintf("differ: statement %d returns %s, the fresh plan's %s", i, firstLine(g[i]), firstLine(w[i]))
		}
	}
	allFail := len(g) > 0
	for i := range g {
		if !strings.HasPrefix(g[i], "FAILS") {
			allFail = false
		}
	}
	if allFail {
		return "both_fail"
	}
	return "equal"
}

func firstLine(s string) string {
	if i := strings.IndexByte(s, '\n'); i >= 0 {
		return s[:i]
	}
	return s
}
