package main

// Confusable neighbours: for every spec, the same query with ONE small re-typing — a literal number <-> the quoted
// number (durations too), another scope prefix (TraceQL), the other quoting form, another operator on the same
// attribute and value, another value on the same attribute, the same value on another attribute.  A translation
// cache or any other state keyed too coarsely makes one of the two decide the SQL of the other; the history phase
// therefore runs every ordered pair (neighbour, spec) and (spec, neighbour) and compares both with their
// fresh-process SQL / error text.

import (
	"regexp"
	"strings"
)

type rewrite struct {
	name string
	re   *regexp.Regexp
	to   []string // replacement templates
	all  bool     // every occurrence separately (else only the first)
	kind string   // "" = every kind, otherwise prefix of Spec.Kind
}

var rewrites = []rewrite{
	{"num_to_quoted", regexp.MustCompile(`(=|>|<)(\s*)(-?\d+(?:\.\d+)?(?:ns|us|ms|s|m|h)?)\b`), []string{`$1$2"$3"`}, true, ""},
	{"quoted_to_num", regexp.MustCompile(`(=|>|<)(\s*)"(-?\d+(?:\.\d+)?(?:ns|us|ms|s|m|h)?)"`), []string{`$1$2$3`}, true, ""},
	{"scope", regexp.MustCompile(`([{(\s])\.([a-z])`), []string{`${1}span.$2`, `${1}resource.$2`}, true, "traceql"},
	{"backtick", regexp.MustCompile(`"([^"\\{}]*)"`), []string{"`$1`"}, false, ""},
	{"op_eq", regexp.MustCompile(`([a-z_.]\s*)=(\s*["\d` + "`" + `])`), []string{`$1!=$2`, `$1=~$2`}, false, ""},
	{"op_cmp", regexp.MustCompile(`(\s*)>(\s*["\d])`), []string{`$1>=$2`, `$1<$2`}, false, ""},
	{"line_op", regexp.MustCompile(`\|= "`), []string{`|~ "`}, true, "logql"},
	{"line_op_re", regexp.MustCompile(`\|~ "`), []string{`|= "`}, true, "logql"},
	{"other_value", regexp.MustCompile(`"([^"\\{}]+)"`), []string{`"${1}2"`}, false, ""},
	{"other_number", regexp.MustCompile(`(=|>|<)(\s*)(\d+)\b`), []string{`$1$2${3}1`}, false, ""},
	{"other_attr_traceql", regexp.MustCompile(`\.([a-z]+)(\s*[=!<>])`), []string{`.${1}2$2`}, false, "traceql"},
	{"other_attr", regexp.MustCompile(`([{|,]\s*)([a-z]+)(\s*[=!<>])`), []string{`$1${2}2$3`}, true, ""},
}

// applyAt replaces only the n-th match of re in s.
func applyAt(re *regexp.Regexp, s, tpl string, n int) (string, bool) {
	locs := re.FindAllStringSubmatchIndex(s, -1)
	if n >= len(locs) {
		return "", false
	}
	loc := locs[n]
	var dst []byte
	dst = re.ExpandString(dst, tpl, s, loc)
	return s[:loc[0]] + string(dst) + s[loc[1]:], true
}

// neighbours returns the confusable variants of s (query text and extra selectors), without s itself.
func neighbours(s Spec) []Spec {
	seen := map[string]bool{s.Key(): true}
	var out []Spec
	texts := append([]string{s.Q}, s.Extra...)
	for ti, text := range texts {
		if (s.Kind == "values" || s.Kind == "prof_label_values" || s.Kind == "prof_select_series" || s.Kind == "prof_series_labels" || s.Kind == "traceql_values") && (ti > 0 && !strings.HasPrefix(text, "{")) {
			continue // label names / group-by lists, not selectors
		}
		if s.Kind == "values" && ti == 0 {
			continue
		}
		for _, rw := range rewrites {
			if rw.kind != "" && !strings.HasPrefix(s.Kind, rw.kind) {
				continue
			}
			n := 1
			if rw.all {
				n = len(rw.re.FindAllStringIndex(text, -1))
			}
			for i := 0; i < n; i++ {
				for _, tpl := range rw.to {
					nt, ok := applyAt(rw.re, text, tpl, i)
					if !ok || nt == text {
						continue
					}
					ns := s
					if ti == 0 {
						ns.Q = nt
					} else {
						ns.Extra = append([]string(nil), s.Extra...)
						ns.Extra[ti-1] = nt
					}
					if !seen[ns.Key()] {
						seen[ns.Key()] = true
						out = append(out, ns)
					}
				}
			}
		}
	}
	return out
}

// neighbourPairs: every ordered pair (neighbour, spec) and (spec, neighbour); thorough adds the ordered pairs of
// two different neighbours of one spec.
func neighbourPairs(specs []Spec, thorough bool) (pairs [][]Spec, uniq []Spec) {
	seen := map[string]bool{}
	for _, s := range specs {
		ns := neighbours(s)
		for _, n := range ns {
			pairs = append(pairs, []Spec{n, s}, []Spec{s, n})
			if !seen[n.Key()] {
				seen[n.Key()] = true
				uniq = append(uniq, n)
			}
		}
		if thorough {
			for i, a := range ns {
				for j, b := range ns {
					if i != j {
						pairs = append(pairs, []Spec{a, b})
					}
				}
			}
		}
	}
	return
}
