package main

// The query set.  Every planner type of the reader appears at least once (the coverage is measured at run time:
// see plannerTypes in main.go, which walks the live plan objects by reflection and records the concrete planner
// type names that were instantiated).

func L(q string) Spec                 { return Spec{Kind: "logql", Q: q, Limit: 100} }
func M(q string) Spec                 { return Spec{Kind: "logql", Q: q, StepMs: 5000} }
func with(s Spec, f func(*Spec)) Spec { f(&s); return s }

// coreSpecs: one representative per planner family (used for the deepest histories).
func coreSpecs() []Spec {
	return []Spec{
		L(`{a="b"}`),
		L(`{a="b"} |~ "a\\.b"`),
		L(`{a="b"} | json x="y" | x="1"`),
		L(`{a="b"} | logfmt | line_format "{{.x}} {{.y}}"`),
		M(`sum by (a) (rate({a="b"} |= "x" [5s]))`),
		M(`rate({a="b"}[1m])`),
		M(`topk(2, sum by (a) (count_over_time({a="b"} | json x="y" [5s])))`),
		M(`quantile_over_time(0.5, {a="b"} | json x="y" | unwrap x [5s]) by (a)`),
		{Kind: "series", Q: `{a="b"}`, Extra: []string{`{c=~"d.*"}`}},
		{Kind: "values", Q: `a`, Extra: []string{`{a="b"}`}},
		{Kind: "traceql", Q: `{.a="b" && .c=~"d"}`, Limit: 10},
		{Kind: "traceql_complex", Q: `{.a="b"} && {.c="d"} | count() > 1`, Limit: 1},
		{Kind: "traceql_tags", Q: `{.a="b"}`, Limit: 10},
		{Kind: "prof_merge_traces", Q: `{a="b"}`},
		{Kind: "prof_select_series", Q: `{a="b", c=~"d.*"}`, Extra: []string{"a"}},
		{Kind: "prof_series", Q: `{a="b"}`, Extra: []string{`{c="d"}`}},
	}
}

// midSpecs: the 40-query set of the design (core + every third of the remaining specs).
func midSpecs() []Spec {
	all, core := allSpecs(), coreSpecs()
	out := append([]Spec(nil), core...)
	for i, s := range all[len(core):] {
		if i%3 == 0 && len(out) < 40 {
			out = append(out, s)
		}
	}
	return out
}

func allSpecs() []Spec {
	s := coreSpecs()
	s = append(s,
		// --- LogQL log queries: stream selector operators
		L(`{a="b", c!="d", e=~"f.*", g!~"h.+"}`),
		with(L(`{a="b"}`), func(s *Spec) { s.Fwd = true; s.Limit = 0 }),
		with(L(`{a="b"}`), func(s *Spec) { s.Cluster = true }),
		// --- line filters: all four operators, literal / escaped-literal / case-insensitive / true regex
		L(`{a="b"} |= "x%_y"`),
		L(`{a="b"} != "it's"`),
		L(`{a="b"} |~ "x.y"`),
		L(`{a="b"} !~ "a\\.b"`),
		L(`{a="b"} |~ "(?i)abc"`),
		L(`{a="b"} !~ "(?i)a\\+c"`),
		L(`{a="b"} |= "x" |~ "a\\$b" != "z"`),
		// --- label filters: on stream labels (simple) / after a parser / numeric / and-or / parenthesised
		L(`{a="b"} | c="d"`),
		L(`{a="b"} | c=~"d.*" and e!="f"`),
		L(`{a="b"} | json x="y" | x > 5 or (x == 1 and a="b")`),
		// --- parsers
		L(`{a="b"} | json`),
		L(`{a="b"} | json x="y", z="w.v[0]"`),
		L(`{a="b"} | regexp "(?P<x>[0-9]+) (?P<y>.*)"`),
		L(`{a="b"} | logfmt | x="1"`),
		L(`{a="b"} | line_format "{{.a}}-{{.c}}"`),
		L(`{a="b"} | json x="y" | line_format "{{.x}}"`),
		L(`{a="b"} | json x="y" | drop x, a="b"`),
		L(`{a="b"} | drop c`),
		// --- metric queries: log-range aggregations
		M(`count_over_time({a="b"}[5s])`),
		M(`bytes_rate({a="b"} |= "x" [5s])`),
		M(`bytes_over_time({a="b"}[10s])`),
		M(`absent_over_time({a="b"}[5s])`),
		M(`rate({a="b"} | json x="y" | x="1" [5s]) > 1`),
		M(`rate({a="b"} |~ "a\\.b" [5s])`),
		M(`rate({a="b"} | c="d" [1m])`),
		with(M(`rate({a="b"}[5s])`), func(s *Spec) { s.Cluster = true }),
		// --- aggregation operators, by / without, prefix / suffix, comparison
		M(`sum(rate({a="b"}[5s]))`),
		M(`avg without (c) (count_over_time({a="b"}[5s])) >= 2`),
		M(`max(rate({a="b"} | json x="y" [5s])) by (x)`),
		M(`min by (a) (rate({a="b"}[1m]))`),
		M(`stddev by (a) (rate({a="b"} | logfmt [5s]))`),
		M(`count(count_over_time({a="b"} | json [5s])) by (a)`),
		// --- unwrap + unwrap functions
		M(`sum_over_time({a="b"} | json x="y" | unwrap x [5s])`),
		M(`avg_over_time({a="b"} | json x="y" | unwrap x [5s]) by (a)`),
		M(`max_over_time({a="b"} | logfmt | unwrap x [5s])`),
		M(`sum by (a) (sum_over_time({a="b"} | json x="y" | unwrap x [5s]) by (a, x))`),
		M(`rate({a="b"} | unwrap_value [5s])`),
		// --- topk / bottomk / quantile
		M(`topk(3, rate({a="b"}[5s]))`),
		M(`bottomk(1, sum by (a) (rate({a="b"}[1m]))) > 0`),
		M(`quantile_over_time(0.99, {a="b"} | json c="c" | unwrap c [10s])`),
		M(`topk(1, quantile_over_time(0.5, {a="b"} | json x="y" | unwrap x [5s]) by (a))`),
		// --- label / value / series planners
		Spec{Kind: "series", Q: `{a="b"}`},
		Spec{Kind: "series", Q: `up{job="x"}`, Extra: []string{`{a!~"b"}`, `{c="d"}`}},
		Spec{Kind: "series", Q: `{a="b"}`, Cluster: true},
		Spec{Kind: "series", Q: `{a="b"}`, Extra: []string{`{c="d", e=~"f.+"}`, `{g="h", i="j", k!="l"}`}}, // selectors of growing size
		Spec{Kind: "values", Q: `a`, Extra: []string{`{a="b"}`, `{c="d", e!~"f"}`}},
		Spec{Kind: "values", Q: `a`},
		Spec{Kind: "values", Q: `a`, Extra: []string{`{a="b"}`, `{c=~"d"}`}, Cluster: true},
		// --- TraceQL: simple
		Spec{Kind: "traceql", Q: `{.a="b"}`, Limit: 10},
		Spec{Kind: "traceql", Q: `{.a="b" || .c!="d"}`, Limit: 10},
		Spec{Kind: "traceql", Q: `{.a=~"b.*" && (.c>5 || .d<=1.5)}`, Limit: 10},
		Spec{Kind: "traceql", Q: `{duration>1s && name="x"}`, Limit: 10},
		Spec{Kind: "traceql", Q: `{.status=200 && .size>"5"}`, Limit: 10}, // number / quoted-number comparisons
		Spec{Kind: "traceql", Q: `{.a="b"} | count() > 2`, Limit: 10},
		Spec{Kind: "traceql", Q: `{.a="b"} | avg(duration) > 1s`, Limit: 10},
		Spec{Kind: "traceql", Q: `{.a="b"} | max(.x) >= 3`, Limit: 10, Cluster: true},
		Spec{Kind: "traceql", Q: `{.a="b"} | max(.span.foo) > 1`, Limit: 10},          // an attribute literally named span.foo
		Spec{Kind: "traceql_complex", Q: `{.a="b"} | sum(.resource.x) > 1`, Limit: 1}, // the same through the per-portion loop
		// --- TraceQL: complex (&& / || between span selectors), simple and portioned execution
		Spec{Kind: "traceql", Q: `{.a="b"} && {.c="d"}`, Limit: 10},
		Spec{Kind: "traceql", Q: `{.a="b"} || {.c="d"} && {.e="f"}`, Limit: 10},
		Spec{Kind: "traceql_complex", Q: `{.a="b"}`, Limit: 1},
		Spec{Kind: "traceql_complex", Q: `{.a="b"} || {.c=~"d"} | sum(.x) > 1`, Limit: 2},
		// --- TraceQL tags / values
		Spec{Kind: "traceql_tags", Q: `{.a="b" && .c="d"}`, Limit: 10},
		Spec{Kind: "traceql_values", Q: `{.a="b"}`, Extra: []string{"x"}, Limit: 10},
		// --- profiles
		Spec{Kind: "prof_label_names", Q: `{a="b"}`},
		Spec{Kind: "prof_label_names", Q: `{a="b"}`, Extra: []string{`{c!="d", e=~"f", g!~"h"}`}},
		Spec{Kind: "prof_label_values", Q: `{a="b"}`, Extra: []string{"a"}},
		Spec{Kind: "prof_merge_traces", Q: `{a="b", c=~"d.*"}`, Cluster: true},
		Spec{Kind: "prof_select_series", Q: `{a="b"}`, Extra: nil},
		Spec{Kind: "prof_merge_profiles", Q: `{a="b"}`},
		Spec{Kind: "prof_series", Q: `{}`},
		Spec{Kind: "prof_series", Q: `{a="b"}`},
		Spec{Kind: "prof_analyze", Q: `{a="b"}`},
		Spec{Kind: "prof_series_labels", Q: `{a="b"}`, Extra: []string{"a", "c"}},
		// --- the ClickHouse planner called directly with the whole script (exported API; reaches LineFormatPlanner,
		// which Transpile never instantiates because every line_format stage is cut off to the in-process planner)
		Spec{Kind: "logql_chplan", Q: `{a="b"} | line_format "x{{.a}}x{{.c}}"`, Limit: 100},
		Spec{Kind: "logql_chplan", Q: `{a="b"} | json code="code" | line_format "{{.code}}!"`, Limit: 100},
		Spec{Kind: "logql_chplan", Q: `{a="b"} |= "0" | c="d"`, Limit: 100},
		// --- shapes that reach the remaining planner types
		Spec{Kind: "traceql", Q: `{}`, Limit: 10},
		Spec{Kind: "traceql", Q: `{name="x"}`, Limit: 10},
		Spec{Kind: "traceql_tags", Q: ``, Limit: 10},
		Spec{Kind: "traceql_values", Q: ``, Extra: []string{"x"}, Limit: 10},
		Spec{Kind: "traceql_values", Q: `{}`, Extra: []string{"x"}, Limit: 10},
		L(`{a="b"} | logfmt | drop x, y="1"`),
		L(`{a="b"} | logfmt | label_format z=x`), // a constant value (w="c") crashes the reader on the EOF sentinel: C12's business, kept out

		M(`absent_over_time({a="b"} | logfmt [5s])`),
	)
	return s
}

// deviants: for the documented defect D13 the k-th execution of the plan of Q behaves like the first execution
// of the plan of Q' (the regex value replaced by the literal it denotes, which is then re-read as a regex).
// A re-execution difference is attributed to D13 only if the SQL equals the fresh SQL of Q' byte for byte.
var d13Deviant = map[string]string{
	`{a="b"} |~ "a\\.b"`:               `{a="b"} |~ "a.b"`,
	`{a="b"} !~ "a\\.b"`:               `{a="b"} !~ "a.b"`,
	`{a="b"} !~ "(?i)a\\+c"`:           `{a="b"} !~ "A+C"`,
	`{a="b"} |= "x" |~ "a\\$b" != "z"`: `{a="b"} |= "x" |~ "a$b" != "z"`,
	`rate({a="b"} |~ "a\\.b" [5s])`:    `rate({a="b"} |~ "a.b" [5s])`,
	`{a="b"} |~ "(?i)abc"`:             `{a="b"} |~ "ABC"`,
}

// stageKinds: one literal per stage kind of the LogQL log pipeline, chosen so that on the universal database of
// meaning.go every stage both passes and rejects some lines / streams.
var stageKinds = []string{
	`|= "0"`,             // line filter, LIKE
	`|~ "[0-9]+ [A-Z]+"`, // line filter, true regex
	`| c="d"`,            // label filter answered on the stream labels
	`| code="500"`,       // label filter on a label only a parser produces
	`| json code="code"`, // ClickHouse-side parser with parameters
	`| regexp "(?P<code>[0-9]+) (?P<verb>[A-Z]+)"`, // ClickHouse-side parser
	`| json`,                           // in-process parser (breakpoint)
	`| logfmt`,                         // in-process parser (breakpoint)
	`| line_format "{{.c}} {{.code}}"`, // in-process stage
	`| drop c`,                         // drop
	`| label_format z=c`,               // rename (a constant value crashes the reader: C12)
}

// pipelineSpecs: every sequence of 1, 2 and 3 stage kinds behind one stream selector (log queries), and every
// sequence of 1 and 2 inside count_over_time (metric queries).  Used for the re-execution part only.
func pipelineSpecs() []Spec {
	var out []Spec
	var rec func(prefix string, depth, max int, emit func(string))
	rec = func(prefix string, depth, max int, emit func(string)) {
		if depth > 0 {
			emit(prefix)
		}
		if depth == max {
			return
		}
		for _, k := range stageKinds {
			rec(prefix+" "+k, depth+1, max, emit)
		}
	}
	rec(`{a="b"}`, 0, 3, func(q string) { out = append(out, L(q)) })
	rec(`{a="b"}`, 0, 2, func(q string) { out = append(out, M(`sum by (c) (count_over_time(`+q+` [5s]))`)) })
	return out
}

// traceqlAttrSpecs: the TraceQL attribute-name alphabet.  Every attribute reference = scope prefix ∈ {".", "span.",
// "resource."} followed by a name out of an alphabet whose members themselves begin with a scope word or a dot
// (one and two levels deep) — the names on which "strip the scope prefix" is not idempotent — placed in every
// position that takes an attribute: the argument of each aggregator (avg/max/min/sum) and a selector condition,
// planned as a simple request and as a complex (per-portion re-executed) request, and as the tags / values
// requests.  Used for the re-execution part (added after seeded change C14-g was missed: the spec set had three
// such names, each behind the "." prefix only, where the stripped text happened to be re-stripped to itself).
func traceqlAttrSpecs() []Spec {
	scopes := []string{".", "span.", "resource."}
	var names []string
	for _, a := range []string{"", "span.", "resource.", "."} {
		for _, b := range []string{"", "span.", "resource.", "."} {
			if a == "" && b != "" {
				continue // the same text as (b, "")
			}
			names = append(names, a+b+"q")
		}
	}
	var out []Spec
	for _, sc := range scopes {
		for _, n := range names {
			at := sc + n
			for _, agg := range []string{"avg", "max", "min", "sum"} {
				q := `{.a="b"} | ` + agg + `(` + at + `) > 1`
				out = append(out, Spec{Kind: "traceql", Q: q, Limit: 10}, Spec{Kind: "traceql_complex", Q: q, Limit: 1})
			}
			q := `{` + at + `="v"}`
			out = append(out, Spec{Kind: "traceql", Q: q, Limit: 10}, Spec{Kind: "traceql_complex", Q: q, Limit: 1},
				Spec{Kind: "traceql_tags", Q: q, Limit: 10}, Spec{Kind: "traceql_values", Q: q, Extra: []string{"x"}, Limit: 10})
			q = `{.a="b" && ` + at + `>5} | count() > 1`
			out = append(out, Spec{Kind: "traceql_complex", Q: q, Limit: 1})
		}
	}
	return out
}
