package main

// Plan construction and execution for every planner family of the reader.  A "plan" is whatever object the
// reader keeps and re-executes: the LogQL RequestProcessorChain (re-run every second by Tail), the TraceQL
// request processor (whose main planner is re-run once per portion by ComplexRequestProcessor), the
// SQLRequestPlanner of the labels/values/series services and of the profile transpiler.  Exec(k) runs the plan
// once with the k-th execution context and returns the SQL statements it sent to (or rendered for) ClickHouse.

import (
	"context"
	"database/sql/driver"
	"fmt"
	"strings"
	"time"

	"github.com/metrico/qryn/reader/logql/logql_parser"
	"github.com/metrico/qryn/reader/logql/logql_transpiler_v2"
	"github.com/metrico/qryn/reader/logql/logql_transpiler_v2/clickhouse_planner"
	"github.com/metrico/qryn/reader/logql/logql_transpiler_v2/shared"
	"github.com/metrico/qryn/reader/model"
	profparser "github.com/metrico/qryn/reader/prof/parser"
	profshared "github.com/metrico/qryn/reader/prof/shared"
	proftr "github.com/metrico/qryn/reader/prof/transpiler"
	profv1 "github.com/metrico/qryn/reader/prof/types/v1"
	traceql_parser "github.com/metrico/qryn/reader/traceql/parser"
	traceql_transpiler "github.com/metrico/qryn/reader/traceql/transpiler"
	"github.com/metrico/qryn/reader/utils/dbVersion"
	sqlsel "github.com/metrico/qryn/reader/utils/sql_select"
	"github.com/metrico/qryn/reader/utils/tables"

	"verif/mc/rdfake"
)

// Spec names one (query, params) pair.  Everything that influences the SQL is in here, so that
// "same query with the same parameters" is exactly "same Spec".
type Spec struct {
	Kind    string   `json:"kind"`              // logql | logql_tail | series | values | labels | traceql | traceql_complex | traceql_tags | traceql_values | prof_*
	Q       string   `json:"q"`                 // query text (or selector)
	Extra   []string `json:"extra,omitempty"`   // more selectors / label name / group-by
	Cluster bool     `json:"cluster,omitempty"` // clustered table names + inline WITH
	Fwd     bool     `json:"fwd,omitempty"`
	Limit   int64    `json:"limit,omitempty"`
	StepMs  int64    `json:"step_ms,omitempty"`
}

func (s Spec) Key() string {
	return fmt.Sprintf("%s|%s|%s|c=%v|f=%v|l=%d|s=%d", s.Kind, s.Q, strings.Join(s.Extra, "\x1f"), s.Cluster, s.Fwd, s.Limit, s.StepMs)
}

// Window is one execution context's time bounds.
type Window struct{ From, To time.Time }

// base time: 2024-03-10 12:00:00 UTC; advances are chosen by the caller (same day / across midnight).
var baseFrom = time.Unix(1710072000, 0)

func windowsFor(adv string, k int) []Window {
	w := make([]Window, k)
	for i := range w {
		var d time.Duration
		switch adv {
		case "second":
			d = time.Duration(i) * time.Second
		case "day":
			d = time.Duration(i) * 13 * time.Hour // crosses midnight UTC on the 2nd execution
		}
		// Tail keeps `from` (no rows arrive from the empty fake database) and moves `to`; QueryRange-like
		// re-execution moves both.  Both bounds move here; "to only" is a subset of the literals that change.
		w[i] = Window{baseFrom.Add(d), baseFrom.Add(5*time.Minute + d)}
	}
	return w
}

// Plan is one live plan object.
type Plan interface {
	// Exec runs the plan once under window w; portion >= 0 only matters for TraceQL complex requests.
	Exec(w Window) ([]string, error)
}

var versionInfo = dbVersion.VersionInfo{"v3": 0, "v5": 0}

func registry(cluster bool, h rdfake.Handler) (*rdfake.DB, *model.DataDatabasesMap) {
	db := rdfake.NewDB("c14", h)
	cl := ""
	if cluster {
		cl = "cl1"
	}
	return db, rdfake.NewRegistry(db, cl).M
}

func sqlCtx() *sqlsel.Ctx {
	return &sqlsel.Ctx{Params: map[string]sqlsel.SQLObject{}, Result: map[string]sqlsel.SQLObject{}}
}

func render(sel sqlsel.ISelect, cluster bool) (string, error) {
	var opts []int
	if cluster {
		opts = append(opts, sqlsel.STRING_OPT_INLINE_WITH)
	}
	return sel.String(sqlCtx(), opts...)
}

// ---- LogQL: the chain object that QueryRange builds once and Tail re-executes ---------------------------------

type logqlPlan struct {
	s     Spec
	chain shared.RequestProcessorChain
	db    *rdfake.DB
	conn  *model.DataDatabasesMap
}

func newLogQL(s Spec) (Plan, error) {
	chain, err := logql_transpiler_v2.Transpile(s.Q)
	if err != nil {
		return nil, err
	}
	p := &logqlPlan{s: s, chain: chain}
	p.db, p.conn = registry(s.Cluster, nil)
	return p, nil
}

func (p *logqlPlan) Exec(w Window) ([]string, error) {
	p.db.Reset()
	ctx, cancel := context.WithCancel(context.Background())
	defer cancel()
	pc := tables.PopulateTableNames(&shared.PlannerContext{
		IsCluster:   p.s.Cluster,
		From:        w.From,
		To:          w.To,
		OrderASC:    p.s.Fwd,
		Limit:       p.s.Limit,
		Ctx:         ctx,
		CancelCtx:   cancel,
		CHDb:        p.db,
		CHFinalize:  true,
		Step:        time.Duration(p.s.StepMs) * time.Millisecond,
		CHSqlCtx:    sqlCtx(),
		VersionInfo: versionInfo,
	}, p.conn)
	out, err := p.chain[0].Process(pc, nil)
	if err != nil {
		return nil, err
	}
	for range out {
	}
	return p.db.Log(), nil
}

// ---- labels / values / series planners (as built by QueryLabelsService) ---------------------------------------

type sqlPlan struct {
	s       Spec
	planner shared.SQLRequestPlanner
	conn    *model.DataDatabasesMap
	tp      uint8
}

func (p *sqlPlan) Exec(w Window) ([]string, error) {
	pc := shared.PlannerContext{
		IsCluster:   p.s.Cluster,
		From:        w.From,
		To:          w.To,
		Limit:       10000,
		Ctx:         context.Background(),
		Type:        p.tp,
		VersionInfo: versionInfo,
	}
	tables.PopulateTableNames(&pc, p.conn)
	if p.s.Kind == "values" && p.s.Cluster {
		pc.TimeSeriesGinTableName = tables.GetTableName("time_series_gin") + "_dist"
	}
	sel, err := p.planner.Process(&pc)
	if err != nil {
		return nil, err
	}
	str, err := sel.String(sqlCtx())
	if err != nil {
		return nil, err
	}
	return []string{str}, nil
}

func fpPlanners(sels []string, series bool) ([]shared.SQLRequestPlanner, error) {
	res := make([]shared.SQLRequestPlanner, len(sels))
	for i, r := range sels {
		var (
			script *logql_parser.LogQLScript
			err    error
		)
		if series {
			script, err = logql_parser.ParseSeries(r)
		} else {
			script, err = logql_parser.Parse(r)
		}
		if err != nil {
			return nil, err
		}
		res[i], err = logql_transpiler_v2.PlanFingerprints(script)
		if err != nil {
			return nil, err
		}
	}
	return res, nil
}

func newSeries(s Spec) (Plan, error) {
	fps, err := fpPlanners(append([]string{s.Q}, s.Extra...), true)
	if err != nil {
		return nil, err
	}
	var planner shared.SQLRequestPlanner = &clickhouse_planner.MultiStreamSelectPlanner{Mains: fps}
	planner = clickhouse_planner.NewSeriesPlanner(planner)
	_, conn := registry(s.Cluster, nil)
	return &sqlPlan{s: s, planner: planner, conn: conn, tp: 1}, nil
}

func newValues(s Spec) (Plan, error) {
	var planner shared.SQLRequestPlanner
	if len(s.Extra) > 0 {
		fps, err := fpPlanners(s.Extra, false)
		if err != nil {
			return nil, err
		}
		planner = &clickhouse_planner.MultiStreamSelectPlanner{Mains: fps}
		planner = clickhouse_planner.NewValuesPlanner(planner, s.Q)
	} else {
		planner = clickhouse_planner.NewValuesPlanner(nil, s.Q)
	}
	_, conn := registry(s.Cluster, nil)
	return &sqlPlan{s: s, planner: planner, conn: conn, tp: 1}, nil
}

// ---- TraceQL ---------------------------------------------------------------------------------------------------

type traceqlPlan struct {
	s          Spec
	proc       shared.TraceRequestProcessor
	gproc      shared.GenericTraceRequestProcessor[string]
	db         *rdfake.DB
	conn       *model.DataDatabasesMap
	complexity int64
	mainRows   int
}

// traceHandler answers the complexity-evaluation statement with the scripted complexity and the main
// search statement with mainRows trace rows (so that ComplexRequestProcessor carries trace ids into the next
// portion), everything else with no rows.
func (p *traceqlPlan) handler(q string) rdfake.Result {
	switch {
	case isEvalQuery(q):
		return rdfake.Result{Cols: []string{"c"}, Rows: [][]driver.Value{{p.complexity}}}
	case strings.Contains(q, "root_service_name") || strings.Contains(q, "span_id") && p.gproc == nil:
		rows := make([][]driver.Value, 0, p.mainRows)
		for i := 0; i < p.mainRows; i++ {
			rows = append(rows, []driver.Value{
				fmt.Sprintf("%032x", 0xabc0+i), []string{"0102030405060708"}, []int64{5}, []int64{1710072001000000000},
				int64(1710072001000000000), float64(1), "svc", "root"})
		}
		return rdfake.Result{Cols: []string{"trace_id", "span_id", "duration", "timestamp_ns", "start_time_unix_nano", "duration_ms", "root_service_name", "root_trace_name"}, Rows: rows}
	}
	return rdfake.Result{Cols: []string{"x"}}
}

func isEvalQuery(q string) bool {
	// EvalFinalizerPlanner wraps the per-term estimates into `WITH pre_final AS (...) SELECT _count ...`.
	return strings.Contains(q, "pre_final")
}

func newTraceQL(s Spec) (Plan, error) {
	var (
		script *traceql_parser.TraceQLScript
		err    error
	)
	if s.Q != "" { // the tags/values endpoints plan a nil script when no q= is given
		script, err = traceql_parser.Parse(s.Q)
		if err != nil {
			return nil, err
		}
	}
	p := &traceqlPlan{s: s}
	switch s.Kind {
	case "traceql":
		p.proc, err = traceql_transpiler.Plan(script)
	case "traceql_complex":
		p.proc, err = traceql_transpiler.Plan(script)
		p.complexity = 25000000 // 3 portions
		p.mainRows = 1
	case "traceql_tags":
		p.gproc, err = traceql_transpiler.PlanTagsV2(script)
	case "traceql_values":
		p.gproc, err = traceql_transpiler.PlanValuesV2(script, s.Extra[0])
	}
	if err != nil {
		return nil, err
	}
	p.db, p.conn = registry(s.Cluster, p.handler)
	return p, nil
}

func (p *traceqlPlan) Exec(w Window) ([]string, error) {
	p.db.Reset()
	ctx, cancel := context.WithCancel(context.Background())
	defer cancel()
	pc := &shared.PlannerContext{
		IsCluster:   p.s.Cluster,
		From:        w.From,
		To:          w.To,
		Limit:       p.s.Limit,
		Ctx:         ctx,
		CHDb:        p.db,
		CancelCtx:   cancel,
		VersionInfo: versionInfo,
	}
	tables.PopulateTableNames(pc, p.conn)
	if p.proc != nil {
		ch, err := p.proc.Process(pc)
		if err != nil {
			return nil, err
		}
		for range ch {
		}
	} else {
		ch, err := p.gproc.Process(pc)
		if err != nil {
			return nil, err
		}
		for range ch {
		}
	}
	return p.db.Log(), nil
}

// ---- profiles --------------------------------------------------------------------------------------------------

var profType = profshared.TypeId{Tp: "process_cpu", SampleType: "cpu", SampleUnit: "nanoseconds", PeriodType: "cpu", PeriodUnit: "nanoseconds"}

func newProf(s Spec) (Plan, error) {
	var scripts []*profparser.Script
	for _, q := range append([]string{s.Q}, s.Extra...) {
		if s.Kind == "prof_select_series" || s.Kind == "prof_label_values" || s.Kind == "prof_series_labels" {
			if q != s.Q {
				break // Extra is group-by / label name for these kinds
			}
		}
		sc, err := profparser.Parse(q)
		if err != nil {
			return nil, err
		}
		scripts = append(scripts, sc)
	}
	var (
		pl  shared.SQLRequestPlanner
		err error
	)
	tid := profType
	switch s.Kind {
	case "prof_label_names":
		pl, err = proftr.PlanLabelNames(scripts)
	case "prof_label_values":
		pl, err = proftr.PlanLabelValues(scripts, s.Extra[0])
	case "prof_merge_traces":
		pl, err = proftr.PlanMergeTraces(scripts[0], &tid)
	case "prof_select_series":
		pl, err = proftr.PlanSelectSeries(scripts[0], &tid, s.Extra, profv1.TimeSeriesAggregationType_TIME_SERIES_AGGREGATION_TYPE_SUM, 15)
	case "prof_merge_profiles":
		pl, err = proftr.PlanMergeProfiles(scripts[0], &tid)
	case "prof_series":
		pl, err = proftr.PlanSeries(scripts, nil)
	case "prof_series_labels":
		pl, err = proftr.PlanSeries(scripts, s.Extra)
	case "prof_analyze":
		pl, err = proftr.PlanAnalyzeQuery(scripts[0])
	default:
		err = fmt.Errorf("unknown kind %s", s.Kind)
	}
	if err != nil {
		return nil, err
	}
	_, conn := registry(s.Cluster, nil)
	return &profPlan{s: s, planner: pl, conn: conn}, nil
}

type profPlan struct {
	s       Spec
	planner shared.SQLRequestPlanner
	conn    *model.DataDatabasesMap
}

func (p *profPlan) Exec(w Window) ([]string, error) {
	pc := shared.PlannerContext{From: w.From, To: w.To, Ctx: context.Background()}
	tables.PopulateTableNames(&pc, p.conn)
	sel, err := p.planner.Process(&pc)
	if err != nil {
		return nil, err
	}
	str, err := sel.String(sqlCtx())
	if err != nil {
		return nil, err
	}
	return []string{str}, nil
}

// NewPlan builds a fresh plan object for s.  A panic of the planner on the calling goroutine (the HTTP handlers
// recover those into a 500) counts as a planner error: the query is unsupported, not a C14 matter.
func NewPlan(s Spec) (p Plan, err error) {
	defer func() {
		if r := recover(); r != nil {
			p, err = nil, fmt.Errorf("planner panic: %v", r)
		}
	}()
	p, err = newPlan(s)
	if p != nil {
		p = safePlan{p}
	}
	return
}

type safePlan struct{ Plan }

func (s safePlan) Exec(w Window) (st []string, err error) {
	defer func() {
		if r := recover(); r != nil {
			st, err = nil, fmt.Errorf("planner panic: %v", r)
		}
	}()
	return s.Plan.Exec(w)
}

// ---- the ClickHouse planner called directly (exported clickhouse_planner.Plan with the WHOLE script, no
// breakpoint analysis): reaches planners that Transpile never instantiates (LineFormatPlanner) -----------------------

type chPlan struct {
	s       Spec
	planner shared.SQLRequestPlanner
	conn    *model.DataDatabasesMap
}

func newCHPlan(s Spec) (Plan, error) {
	script, err := logql_parser.Parse(s.Q)
	if err != nil {
		return nil, err
	}
	pl, err := clickhouse_planner.Plan(script, true)
	if err != nil {
		return nil, err
	}
	_, conn := registry(s.Cluster, nil)
	return &chPlan{s: s, planner: pl, conn: conn}, nil
}

func (p *chPlan) Exec(w Window) ([]string, error) {
	pc := tables.PopulateTableNames(&shared.PlannerContext{
		IsCluster: p.s.Cluster, From: w.From, To: w.To, OrderASC: p.s.Fwd, Limit: p.s.Limit, Ctx: context.Background(),
		CHFinalize: true, Step: time.Duration(p.s.StepMs) * time.Millisecond, CHSqlCtx: sqlCtx(), VersionInfo: versionInfo,
	}, p.conn)
	sel, err := p.planner.Process(pc)
	if err != nil {
		return nil, err
	}
	str, err := render(sel, p.s.Cluster)
	if err != nil {
		return nil, err
	}
	return []string{str}, nil
}

func newPlan(s Spec) (Plan, error) {
	switch {
	case s.Kind == "logql_chplan":
		return newCHPlan(s)
	case s.Kind == "logql":
		return newLogQL(s)
	case s.Kind == "series":
		return newSeries(s)
	case s.Kind == "values":
		return newValues(s)
	case strings.HasPrefix(s.Kind, "traceql"):
		return newTraceQL(s)
	case strings.HasPrefix(s.Kind, "prof_"):
		return newProf(s)
	}
	return nil, fmt.Errorf("unknown kind %q", s.Kind)
}
