// C14 — Query translation is deterministic and a prepared plan can be re-executed.
//
// Explicit-state search over histories of planner use.  See NOTES.md.
package main

import (
	"bufio"
	"bytes"
	"encoding/json"
	"fmt"
	"os"
	"os/exec"
	"reflect"
	"regexp"
	"sort"
	"strings"
	"sync"
	"time"

	"verif/mc/ev"
)

const sep = "\n;;\n"

// runEvent = plan(s) is done by the caller; this executes p once and folds the outcome into one string.
func outcome(st []string, err error) string {
	if err != nil {
		return "ERR: " + err.Error()
	}
	return strings.Join(st, sep)
}

func planAndExec(s Spec, w Window) (Plan, string) {
	p, err := NewPlan(s)
	if err != nil {
		return nil, "PLANERR: " + err.Error()
	}
	return p, outcome(p.Exec(w))
}

var w0 = windowsFor("second", 1)[0]

// ---- history enumeration (runs inside a worker process: single goroutine, so that leaked planner state is
// observed deterministically) --------------------------------------------------------------------------------------

type Mismatch struct {
	Mode     string `json:"mode"` // history | reexec | fresh
	Specs    []Spec `json:"specs"`
	Schedule string `json:"schedule,omitempty"` // immediate | deferred | reversed
	Event    int    `json:"event"`              // index into Specs whose execution disagreed
	Adv      string `json:"adv,omitempty"`
	K        int    `json:"k,omitempty"`
	Got      string `json:"got"`
	Want     string `json:"want"`
	// history mode: where in the deterministic enumeration of a shard it happened, and (after minimisation) the
	// sequence of histories [SeqFrom..Pos] of that shard that reproduces it in a fresh process
	Level   string `json:"level,omitempty"`
	Depth   int    `json:"depth,omitempty"`
	Shard   int    `json:"shard,omitempty"`
	NShards int    `json:"nshards,omitempty"`
	Pos     int    `json:"pos,omitempty"`
	SeqFrom int    `json:"seq_from,omitempty"`
}

var schedules = []string{"immediate", "deferred", "reversed"}

// runHistory executes one history under one schedule and returns the outcome of every execution event,
// indexed like specs.
func runHistory(specs []Spec, schedule string) []string {
	out := make([]string, len(specs))
	switch schedule {
	case "immediate": // P1 X1 P2 X2 ...
		for i, s := range specs {
			_, out[i] = planAndExec(s, w0)
		}
	default: // P1 P2 ... then X1 X2 ... (deferred) or Xn ... X1 (reversed)
		plans := make([]Plan, len(specs))
		for i, s := range specs {
			p, err := NewPlan(s)
			if err != nil {
				out[i] = "PLANERR: " + err.Error()
			}
			plans[i] = p
		}
		order := make([]int, len(specs))
		for i := range order {
			order[i] = i
			if schedule == "reversed" {
				order[i] = len(specs) - 1 - i
			}
		}
		for _, i := range order {
			if plans[i] != nil {
				out[i] = outcome(plans[i].Exec(w0))
			}
		}
	}
	return out
}

type histStats struct {
	Histories int64 `json:"histories"`
	Events    int64 `json:"events"`
	Expired   bool  `json:"expired,omitempty"`
	Rejected  int64 `json:"rejected,omitempty"` // re-execution: specs the planner rejects (error or panic on the calling goroutine)
	Next      int   `json:"next"`               // position after the last history that was run
	Done      bool  `json:"done"`               // the shard was enumerated to its end
}

// workerHist enumerates positions [start, end) of one shard (position p = history number shard + p*nshards in
// the lexicographic enumeration of set^depth).  It stops at the first history with a mismatch: from then on the
// process may be contaminated, so the parent confirms/minimises in fresh processes and restarts the shard after it.
func workerHist(depth, shard, nshards, start, end int, set []Spec, explicit [][]Spec, scheds []string, base map[string]string, deadline time.Time, w *bufio.Writer) {
	if len(scheds) == 0 {
		scheds = schedules
	}
	var st histStats
	enc := json.NewEncoder(w)
	idx := make([]int, depth)
	n := len(set)
	total := 1
	for i := 0; i < depth; i++ {
		total *= n
	}
	if explicit != nil {
		total = len(explicit)
	}
	specs := make([]Spec, depth)
	pos := start
	st.Done = true
	for ; ; pos++ {
		h := shard + pos*nshards
		if h >= total || (end > 0 && pos >= end) {
			break
		}
		if st.Histories%64 == 0 && time.Now().After(deadline) {
			st.Expired = true
			st.Done = false
			break
		}
		if explicit != nil {
			specs = explicit[h]
			depth = len(specs)
		} else {
			x := h
			for i := depth - 1; i >= 0; i-- {
				idx[i] = x % n
				x /= n
			}
			for i := range idx {
				specs[i] = set[idx[i]]
			}
		}
		for _, sch := range scheds {
			if depth == 1 && sch != "immediate" {
				continue
			}
			out := runHistory(specs, sch)
			st.Histories++
			st.Events += int64(depth)
			bad := false
			for i, o := range out {
				if want := base[specs[i].Key()]; o != want && !bad {
					bad = true
					enc.Encode(Mismatch{Mode: "history", Specs: append([]Spec(nil), specs...), Schedule: sch, Event: i, Got: o, Want: want,
						Depth: depth, Shard: shard, NShards: nshards, Pos: pos})
				}
			}
			if bad {
				st.Next = pos + 1
				st.Done = false
				enc.Encode(map[string]any{"stats": st})
				w.Flush()
				return
			}
		}
	}
	st.Next = pos
	enc.Encode(map[string]any{"stats": st})
	w.Flush()
}

// ---- re-execution -------------------------------------------------------------------------------------------------

// reexecCase: one shared plan executed k times under advancing windows; every execution is compared with the
// first execution of a fresh plan of the same spec under the same window.
func reexecCase(s Spec, adv string, k int) (mm []Mismatch, events int) {
	ws := windowsFor(adv, k)
	shared, err := NewPlan(s)
	if err != nil {
		return nil, 0
	}
	for i, w := range ws {
		got := outcome(shared.Exec(w))
		_, want := planAndExec(s, w)
		events += 2
		if got != want {
			mm = append(mm, Mismatch{Mode: "reexec", Specs: []Spec{s}, Adv: adv, K: k, Event: i, Got: got, Want: want})
		}
		if strings.HasPrefix(got, "ERR") {
			// the reader never executes a plan again after an execution of it failed (Tail ends its loop,
			// ComplexRequestProcessor and the services return the error): later executions are out of scope
			break
		}
	}
	return
}

// workerReexec: executions 1..3 of one plan object per (spec, advance); the cases with k = 1 and k = 2 are the
// prefixes of the k = 3 run (planning and execution are deterministic), so only k = 3 is run.
func workerReexec(set []Spec, shard, nshards int, w *bufio.Writer) {
	enc := json.NewEncoder(w)
	var st histStats
	for i, s := range set {
		if nshards > 0 && i%nshards != shard {
			continue
		}
		for _, adv := range []string{"second", "day"} {
			mm, ev := reexecCase(s, adv, 3)
			st.Histories++
			st.Events += int64(ev)
			if ev == 0 && adv == "second" {
				st.Rejected++
			}
			for _, m := range mm {
				enc.Encode(m)
			}
		}
	}
	enc.Encode(map[string]any{"stats": st})
	w.Flush()
}

// ---- worker entry -------------------------------------------------------------------------------------------------

type job struct {
	Mode     string            `json:"mode"` // fresh | hist | reexec | one | types
	Set      []Spec            `json:"set"`
	Base     map[string]string `json:"base,omitempty"`
	Depth    int               `json:"depth,omitempty"`
	Shard    int               `json:"shard,omitempty"`
	NShards  int               `json:"nshards,omitempty"`
	Schedule string            `json:"schedule,omitempty"`
	Adv      string            `json:"adv,omitempty"`
	K        int               `json:"k,omitempty"`
	BudgetS  float64           `json:"budget_s,omitempty"`
	Scheds   []string          `json:"scheds,omitempty"` // schedules to run per history (default: all three)
	Pairs    [][]Spec          `json:"pairs,omitempty"`  // explicit list of histories instead of the enumeration of Set^Depth
	Start    int               `json:"start,omitempty"`
	End      int               `json:"end,omitempty"`
}

func workerMain(path string) {
	// the reader prints "Checking ..." from dbVersion and the labels service prints queries: keep stdout clean
	realOut := os.Stdout
	os.Stdout, _ = os.OpenFile(os.DevNull, os.O_WRONLY, 0)
	b, err := os.ReadFile(path)
	if err != nil {
		ev.Fatal("worker: %v", err)
	}
	var j job
	if err := json.Unmarshal(b, &j); err != nil {
		ev.Fatal("worker: %v", err)
	}
	w := bufio.NewWriterSize(realOut, 1<<20)
	defer w.Flush()
	enc := json.NewEncoder(w)
	switch j.Mode {
	case "fresh": // one spec, first thing this process ever plans
		p, o := planAndExec(j.Set[0], w0)
		enc.Encode(map[string]any{"out": o, "types": plannerTypes(p)})
	case "hist":
		workerHist(j.Depth, j.Shard, j.NShards, j.Start, j.End, j.Set, j.Pairs, j.Scheds, j.Base, time.Now().Add(time.Duration(j.BudgetS*float64(time.Second))), w)
	case "reexec":
		workerReexec(j.Set, j.Shard, j.NShards, w)
	case "one": // a single history in a fresh process
		enc.Encode(map[string]any{"outs": runHistory(j.Set, j.Schedule)})
	case "reexec_one":
		mm, _ := reexecCase(j.Set[0], j.Adv, j.K)
		enc.Encode(map[string]any{"mismatches": mm})
	}
}

func spawn(j job) ([]byte, error) {
	dir := os.Getenv("VERIF_SCRATCH")
	if dir == "" {
		dir = os.TempDir()
	}
	f, err := os.CreateTemp(dir, "c14job-*.json")
	if err != nil {
		return nil, err
	}
	defer os.Remove(f.Name())
	b, _ := json.Marshal(j)
	f.Write(b)
	f.Close()
	// a worker that cannot be started or is killed from outside (the machine is shared and at times heavily
	// overloaded) is started again, twice at most; a worker that fails by itself fails every time
	var lastErr error
	for attempt := 0; attempt < 3; attempt++ {
		cmd := exec.Command(os.Args[0], "--worker", f.Name())
		cmd.Env = append(os.Environ(), "GOMAXPROCS=2")
		var out, errb bytes.Buffer
		cmd.Stdout = &out
		cmd.Stderr = &errb
		err := cmd.Run()
		if err == nil {
			return out.Bytes(), nil
		}
		lastErr = fmt.Errorf("%v: %s", err, tail(errb.String(), 2000))
		time.Sleep(200 * time.Millisecond)
	}
	return nil, lastErr
}

func tail(s string, n int) string {
	if len(s) > n {
		return s[len(s)-n:]
	}
	return s
}

// ---- planner type coverage (reflection walk over the live plan object) ----------------------------------------------

func plannerTypes(root any) []string {
	seen := map[string]bool{}
	visited := map[uintptr]bool{}
	var walk func(v reflect.Value, depth int)
	walk = func(v reflect.Value, depth int) {
		if depth > 40 || !v.IsValid() {
			return
		}
		switch v.Kind() {
		case reflect.Interface:
			if !v.IsNil() {
				walk(v.Elem(), depth+1)
			}
		case reflect.Ptr:
			if v.IsNil() || visited[v.Pointer()] {
				return
			}
			visited[v.Pointer()] = true
			walk(v.Elem(), depth+1)
		case reflect.Struct:
			t := v.Type()
			if p := t.PkgPath(); strings.Contains(p, "qryn/reader") && (strings.Contains(t.Name(), "lanner") || strings.Contains(t.Name(), "rocessor") || strings.Contains(p, "transpiler")) {
				seen[p[strings.LastIndex(p, "/")+1:]+"."+t.Name()] = true
			}
			for i := 0; i < v.NumField(); i++ {
				walk(v.Field(i), depth+1)
			}
		case reflect.Slice, reflect.Array:
			for i := 0; i < v.Len(); i++ {
				walk(v.Index(i), depth+1)
			}
		}
	}
	if sp, ok := root.(safePlan); ok {
		root = sp.Plan
	}
	walk(reflect.ValueOf(root), 0)
	var out []string
	for k := range seen {
		out = append(out, k)
	}
	sort.Strings(out)
	return out
}

// ---- classification of a re-execution difference --------------------------------------------------------------------

var tokRe = regexp.MustCompile(`'(?:[^'\\]|\\.)*'|[A-Za-z_][A-Za-z0-9_.]*|\d+(?:\.\d+)?|\S`)
var cteRe = regexp.MustCompile(`([A-Za-z_][A-Za-z0-9_]*) as \($`)
var aliasNumRe = regexp.MustCompile(`\b([A-Za-z_]+?_)(\d+)\b`)

// normAliases renumbers generated alias counters (labels_1, _2, ...) by order of first appearance.
func normAliases(s string) string {
	m := map[string]string{}
	return aliasNumRe.ReplaceAllStringFunc(s, func(x string) string {
		sm := aliasNumRe.FindStringSubmatch(x)
		if len(sm[2]) > 6 { // not a counter (timestamps etc.)
			return x
		}
		if _, ok := m[x]; !ok {
			m[x] = fmt.Sprintf("%s#%d", sm[1], len(m)+1)
		}
		return m[x]
	})
}

func sanitize(s string) string {
	var b strings.Builder
	for _, r := range s {
		if r >= 'a' && r <= 'z' || r >= 'A' && r <= 'Z' || r >= '0' && r <= '9' || r == '_' {
			b.WriteRune(r)
		}
	}
	if b.Len() > 24 {
		return b.String()[:24]
	}
	if b.Len() == 0 {
		return "sym"
	}
	return b.String()
}

var aggAttrRe = regexp.MustCompile(`key == '((?:[^'\\]|\\.)*)'\) as agg_val`)

// aggAttr: the attribute a TraceQL aggregator statement reads (anyIf(toFloat64OrNull(val), key == 'X') as agg_val).
func aggAttr(sql string) string {
	if m := aggAttrRe.FindStringSubmatch(sql); m != nil {
		return m[1]
	}
	return ""
}

var cteDefRe = regexp.MustCompile(`([A-Za-z_][A-Za-z0-9_]*) as \( SELECT`)
var dateMaskRe = regexp.MustCompile(`'\d{4}-\d\d-\d\d'`)

// cteDefs lists the WITH definitions (alias -> body, dates masked) of one statement, in order, duplicates kept.
func cteDefs(sql string) (aliases []string, bodies map[string][]string) {
	bodies = map[string][]string{}
	for _, m := range cteDefRe.FindAllStringSubmatchIndex(sql, -1) {
		alias := sql[m[2]:m[3]]
		depth, i := 0, m[1]-len(" SELECT")-1
		start := i
		for ; i < len(sql); i++ {
			if sql[i] == '(' {
				depth++
			} else if sql[i] == ')' {
				depth--
				if depth == 0 {
					break
				}
			}
		}
		aliases = append(aliases, alias)
		bodies[alias] = append(bodies[alias], dateMaskRe.ReplaceAllString(sql[start:min(i+1, len(sql))], "'D'"))
	}
	return
}

// withStructure: structural sanity of the WITH aliases of the re-executed statement relative to the fresh one:
// an alias defined twice, or an alias that the fresh statement defines and that the re-executed statement still
// references but no longer defines / defines as something else (Select.AddWith drops a WITH whose alias exists).
func withStructure(got, want string) (class, what string) {
	gs, ws := strings.Split(got, sep), strings.Split(want, sep)
	for i := range gs {
		if i >= len(ws) {
			break
		}
		ga, gb := cteDefs(gs[i])
		_, wb := cteDefs(ws[i])
		for _, a := range ga {
			if len(gb[a]) > 1 && len(wb[a]) <= 1 {
				return "reexec_with_alias_defined_twice_" + sanitize(regexp.MustCompile(`_?\d+$`).ReplaceAllString(a, "")),
					fmt.Sprintf("WITH %s is defined %d times in the re-executed statement", a, len(gb[a]))
			}
		}
		// a WITH of the fresh statement without counterpart (same body up to alias counters) in the re-executed
		// one, while the re-executed statement has fewer definitions: a definition was dropped and its
		// references now read whatever else carries that alias
		strip := func(b string) string { return regexp.MustCompile(`_\d+\b`).ReplaceAllString(b, "_#") }
		gotBodies := map[string]int{}
		ng, nw := 0, 0
		for _, bs := range gb {
			for _, b := range bs {
				gotBodies[strip(b)]++
				ng++
			}
		}
		wa, _ := cteDefs(ws[i])
		for _, bs := range wb {
			nw += len(bs)
		}
		if ng < nw {
			for _, a := range wa {
				for _, b := range wb[a] {
					if gotBodies[strip(b)] == 0 {
						return "reexec_with_definition_dropped_" + sanitize(regexp.MustCompile(`_?\d+$`).ReplaceAllString(a, "")),
							fmt.Sprintf("the fresh statement defines WITH %s, the re-executed statement has no such definition (%d WITHs instead of %d) and its references read another sub-select that carries the alias (Select.AddWith keeps the first WITH of an alias and silently drops a later one)", a, ng, nw)
					}
				}
			}
		}
	}
	return "", ""
}

var formatLitRe = regexp.MustCompile(`format\('((?:[^'\\]|\\.)*)'`)
var holeRe = regexp.MustCompile(`\{\d+\}`)

// formatHoles: number of {n} placeholders of the first format('…', …) call of a statement list.
func formatHoles(sql string) int {
	m := formatLitRe.FindStringSubmatch(sql)
	if m == nil {
		return 0
	}
	return len(holeRe.FindAllString(m[1], -1))
}

// selfRefCTE reports the alias of a CTE whose body selects from itself (`X as ( ... FROM X as ...`).
func selfRefCTE(sql string) string {
	for _, m := range regexp.MustCompile(`([A-Za-z_][A-Za-z0-9_]*) as \( SELECT`).FindAllStringSubmatchIndex(sql, -1) {
		alias := sql[m[2]:m[3]]
		// body = up to the matching parenthesis
		depth, i := 0, m[1]-len(" SELECT")-1
		start := i
		for ; i < len(sql); i++ {
			if sql[i] == '(' {
				depth++
			} else if sql[i] == ')' {
				depth--
				if depth == 0 {
					break
				}
			}
		}
		if i > start && i <= len(sql) && regexp.MustCompile(`FROM `+regexp.QuoteMeta(alias)+`\b`).MatchString(sql[start:min(i, len(sql))]) {
			return alias
		}
	}
	return ""
}

// quiet runs f with os.Stdout pointed at /dev/null (the reader prints debug lines while planning).
func quiet(f func()) {
	old := os.Stdout
	if null, err := os.OpenFile(os.DevNull, os.O_WRONLY, 0); err == nil {
		os.Stdout = null
		defer func() { os.Stdout = old; null.Close() }()
	}
	f()
}

// ---- meaning-preserving normalisations (used only to decide that two different texts mean the same) ----------------

type item struct {
	tok   string
	group []item // non-nil for a parenthesised group
}

func parseItems(t []string, i int) ([]item, int) {
	var out []item
	for i < len(t) {
		switch t[i] {
		case "(":
			g, j := parseItems(t, i+1)
			if g == nil {
				g = []item{}
			}
			out = append(out, item{group: g})
			i = j
		case ")":
			return out, i + 1
		default:
			out = append(out, item{tok: t[i]})
			i++
		}
	}
	return out, i
}

func renderItems(items []item) string {
	// dedupe identical operands of a pure top-level `or` chain or a pure top-level `and` chain
	parts := make([]string, len(items))
	for i, it := range items {
		if it.group != nil {
			parts[i] = "(" + renderItems(it.group) + ")"
		} else {
			parts[i] = it.tok
		}
	}
	for _, op := range []string{"or", "and"} {
		other := "and"
		if op == "and" {
			other = "or"
		}
		hasOp, hasOther := false, false
		for _, it := range items {
			if it.group == nil && it.tok == op {
				hasOp = true
			}
			if it.group == nil && it.tok == other {
				hasOther = true
			}
		}
		if !hasOp || hasOther {
			continue
		}
		var operands []string
		var cur []string
		for i, it := range items {
			if it.group == nil && it.tok == op {
				operands = append(operands, strings.Join(cur, " "))
				cur = nil
				continue
			}
			cur = append(cur, parts[i])
		}
		operands = append(operands, strings.Join(cur, " "))
		seen := map[string]bool{}
		var uniq []string
		for _, o := range operands {
			if !seen[o] {
				seen[o] = true
				uniq = append(uniq, o)
			}
		}
		return strings.Join(uniq, " "+op+" ")
	}
	return strings.Join(parts, " ")
}

// dedupeBool renders sql with repeated identical operands of and/or chains removed (idempotence of and/or holds
// in ClickHouse's three-valued logic for deterministic operands).
func dedupeBool(sql string) string {
	items, _ := parseItems(tokRe.FindAllString(sql, -1), 0)
	return renderItems(items)
}

var dateLit = regexp.MustCompile(`^'\d{4}-\d\d-\d\d'$`)

// staleLowerDateOnly: got and want differ only in date literals that sit in `date >= 'D'` / `date > 'D'`
// comparisons, and every such literal of got is earlier than (or equal to) the one of want.
func staleLowerDateOnly(got, want string) bool {
	g, w := tokRe.FindAllString(got, -1), tokRe.FindAllString(want, -1)
	if len(g) != len(w) {
		return false
	}
	n := 0
	for i := range g {
		if g[i] == w[i] {
			continue
		}
		if !dateLit.MatchString(g[i]) || !dateLit.MatchString(w[i]) || g[i] > w[i] {
			return false
		}
		// tokens: ( date ) > = ( 'D'   — the operator is spelled by the one or two tokens before "("
		if i < 6 || g[i-1] != "(" || !strings.HasSuffix(g[i-5], "date") {
			return false
		}
		if g[i-3] != ">" || g[i-2] != "=" {
			return false
		}
		n++
	}
	return n > 0
}

// classify names a re-execution (or history) difference by explanation.
func classify(m Mismatch) (class, what string) {
	s := m.Specs[0]
	if m.Mode == "history" {
		s = m.Specs[m.Event]
	}
	pre := m.Mode + "_" + strings.SplitN(s.Kind, "_", 2)[0]
	if strings.HasPrefix(m.Got, "ERR") || strings.HasPrefix(m.Got, "PLANERR") || strings.HasPrefix(m.Want, "ERR") || strings.HasPrefix(m.Want, "PLANERR") {
		return pre + "_error_differs", fmt.Sprintf("got %.120q want %.120q", m.Got, m.Want)
	}
	if m.Mode == "reexec" {
		// documented deviant rule D13: the plan now behaves like the plan of the query whose regex is the literal
		if dq, ok := d13Deviant[s.Q]; ok {
			ds := s
			ds.Q = dq
			var dev string
			quiet(func() { _, dev = planAndExec(ds, windowsFor(m.Adv, m.K)[m.Event]) })
			if dev == m.Got || staleLowerDateOnly(m.Got, dev) {
				return "reexec_line_filter_val_overwritten", fmt.Sprintf("execution #%d of the plan of %s sends the SQL of %s (LineFilterPlanner.Process stored the extracted literal in l.Val)", m.Event+1, s.Q, dq)
			}
		}
		if g, w := formatHoles(m.Got), formatHoles(m.Want); w > 0 && g == (m.Event+1)*w {
			return "reexec_line_format_template_accumulates", fmt.Sprintf("execution #%d of the plan of %s renders format() with %d placeholders and arguments, a fresh plan with %d (LineFormatPlanner.ProcessTpl appends to l.formatStr / l.args on every execution)", m.Event+1, s.Q, g, w)
		}
		if g, w := aggAttr(m.Got), aggAttr(m.Want); g != "" && w != "" && g != w {
			return "reexec_traceql_aggregated_attr_renamed", fmt.Sprintf("execution #%d of the plan of %s aggregates attribute %q, the first execution / a fresh plan %q (AttrConditionPlanner.aggregator strips one more prefix from a.AggregatedAttr on every execution)", m.Event+1, s.Q, g, w)
		}
		if c, w := withStructure(m.Got, m.Want); c != "" && m.Event > 0 && selfRefCTE(m.Got) == "" {
			return c, fmt.Sprintf("execution #%d of the plan of %s: %s", m.Event+1, s.Q, w)
		}
		if a := selfRefCTE(m.Got); a != "" && selfRefCTE(m.Want) == "" && m.Event > 0 {
			return "reexec_cte_defined_from_itself_" + sanitize(regexp.MustCompile(`_?\d+$`).ReplaceAllString(a, "")),
				fmt.Sprintf("execution #%d of the plan of %s defines WITH %s in terms of itself (cached WITH of the previous execution reused as its own source)", m.Event+1, s.Q, a)
		}
	}
	ga, wa := normAliases(m.Got), normAliases(m.Want)
	if ga == wa {
		return "benign_alias_numbering_only", "differs only in generated alias counters"
	}
	if dedupeBool(ga) == dedupeBool(wa) {
		return "benign_repeated_boolean_operand", "differs only by a repeated identical operand of and/or (x or y or y == x or y)"
	}
	if staleLowerDateOnly(ga, wa) {
		return "benign_stale_lower_date_bound", "differs only by an earlier date literal in `date >= '…'` lower bounds of a cached WITH (weaker index pre-filter; rows are still bounded by timestamp_ns)"
	}
	gt, wt := tokRe.FindAllString(ga, -1), tokRe.FindAllString(wa, -1)
	i := 0
	for i < len(gt) && i < len(wt) && gt[i] == wt[i] {
		i++
	}
	g, w := "end", "end"
	if i < len(gt) {
		g = gt[i]
	}
	if i < len(wt) {
		w = wt[i]
	}
	// enclosing CTE: last "alias as (" before the difference
	cte := "top"
	pos := len(strings.Join(wt[:i], " "))
	_ = pos
	for j := i; j >= 2; j-- {
		if j < len(wt) && wt[j] == "(" && strings.EqualFold(wt[j-1], "as") {
			cte = wt[j-2]
			break
		}
	}
	isDate := regexp.MustCompile(`^'\d{4}-\d\d-\d\d'$`)
	if isDate.MatchString(g) && isDate.MatchString(w) {
		return fmt.Sprintf("%s_stale_date_bound_in_%s", pre, sanitize(regexp.MustCompile(`_?\d+$`).ReplaceAllString(cte, ""))),
			fmt.Sprintf("execution #%d of the plan of %s keeps date bound %s of an earlier execution inside WITH %s (fresh plan: %s)", m.Event+1, s.Q, g, cte, w)
	}
	isNum := regexp.MustCompile(`^\d{9,}$`)
	if isNum.MatchString(g) && isNum.MatchString(w) {
		return fmt.Sprintf("%s_stale_time_bound_in_%s", pre, sanitize(regexp.MustCompile(`_?\d+$`).ReplaceAllString(cte, ""))),
			fmt.Sprintf("execution #%d of the plan of %s keeps time bound %s of an earlier execution inside WITH %s (fresh plan: %s)", m.Event+1, s.Q, g, cte, w)
	}
	return fmt.Sprintf("%s_%s_want_%s_got_%s", pre, sanitize(cte), sanitize(w), sanitize(g)),
		fmt.Sprintf("%s: first difference inside WITH %s: want …%s… got …%s…", s.Q, cte, ctx(wt, i), ctx(gt, i))
}

func ctx(t []string, i int) string {
	a, b := max(0, i-4), min(len(t), i+6)
	return strings.Join(t[a:b], " ")
}

// ---- parent ---------------------------------------------------------------------------------------------------------

func parseLines(b []byte, onMismatch func(Mismatch), onStats func(histStats)) error {
	sc := bufio.NewScanner(bytes.NewReader(b))
	sc.Buffer(make([]byte, 1<<20), 64<<20)
	for sc.Scan() {
		line := sc.Bytes()
		if bytes.HasPrefix(line, []byte(`{"stats"`)) {
			var x struct{ Stats histStats }
			if err := json.Unmarshal(line, &x); err != nil {
				return err
			}
			onStats(x.Stats)
			continue
		}
		var m Mismatch
		if err := json.Unmarshal(line, &m); err != nil {
			return fmt.Errorf("bad worker line %.200q: %v", line, err)
		}
		onMismatch(m)
	}
	return nil
}

func main() {
	if len(os.Args) > 2 && os.Args[1] == "--worker" {
		workerMain(os.Args[2])
		return
	}
	if len(os.Args) > 1 && os.Args[1] == "--specs" { // debugging aid: print the query set
		pairs, uniq := neighbourPairs(allSpecs(), false)
		tp, _ := neighbourPairs(allSpecs(), true)
		json.NewEncoder(os.Stdout).Encode(map[string]any{"all": allSpecs(), "core": coreSpecs(), "pairs": len(pairs), "uniq": uniq, "thorough_pairs": len(tp)})
		return
	}
	r := ev.Start("C14", "model_checking", 78*time.Second, 17*time.Minute)
	r.Rule = "state = everything planned/executed so far in one process; events = plan(q) and exec(plan_i, window); (a) every ordered history of <= D planning events from the query set under 3 schedules (plan+exec immediately / plan all then exec in order / exec in reverse order), each execution's SQL compared byte-for-byte with the SQL of the same spec planned first in a fresh process (two fresh processes per spec must agree); (b) every spec of the set plus every sequence of <= 3 LogQL pipeline stage kinds (11 kinds; <= 2 inside count_over_time) x advance in {1s, 13h (crosses midnight)}: executions 1..3 of one plan object, each with a new PlannerContext and sql.Ctx as Tail creates per tick, compared with the first execution of a fresh plan under the same window; differing texts are explained, checked for dropped/duplicated/self-referencing WITH definitions and executed on chsim"
	r.Assumptions = []string{
		"the database seam is a scripted database/sql driver: SQL is observed as the statement text handed to ISqlxDB.QueryCtx (or rendered with ISelect.String for the planners whose caller renders it)",
		"PlannerContext fields are those QueryRange/Tail/SearchTraceQL/Values/Series/prof.plannerCtx set; VersionInfo is {v3:0,v5:0}",
		"byte equality with a fresh plan under the same window is used as the (sufficient) criterion for 'same meaning apart from the time bounds'; a textual difference is classified by explanation (deviant-rule replay for D13, structural detectors otherwise) and both statement lists are executed by verif/mc/chsim on one small universal database as a cross-check",
	}
	all, core := allSpecs(), coreSpecs()
	if r.Replay != "" {
		replay(r)
		r.Finish()
	}

	// ---- phase 0: baselines from fresh processes (two per spec: Go randomises map iteration per process/run)
	base := map[string]string{}
	types := map[string]bool{}
	var mu sync.Mutex
	var wg sync.WaitGroup
	sem := make(chan struct{}, 16)
	for _, s := range all {
		for rep := 0; rep < 2; rep++ {
			wg.Add(1)
			sem <- struct{}{}
			go func(s Spec, rep int) {
				defer wg.Done()
				defer func() { <-sem }()
				out, err := spawn(job{Mode: "fresh", Set: []Spec{s}})
				if err != nil {
					ev.Fatal("fresh worker: %v", err)
				}
				var x struct {
					Out   string
					Types []string
				}
				if err := json.Unmarshal(out, &x); err != nil {
					ev.Fatal("fresh worker output: %v %.200q", err, out)
				}
				mu.Lock()
				defer mu.Unlock()
				for _, t := range x.Types {
					types[t] = true
				}
				r.AddEval(1)
				r.TracesValidated++
				if prev, ok := base[s.Key()]; ok && prev != x.Out {
					c, w := classify(Mismatch{Mode: "fresh", Specs: []Spec{s}, Got: x.Out, Want: prev})
					c = strings.TrimPrefix(c, "benign_")
					r.Violate("nondeterministic_"+c, "two fresh processes render different SQL: "+w, Mismatch{Mode: "fresh", Specs: []Spec{s}, Got: x.Out, Want: prev})
				}
				base[s.Key()] = x.Out
			}(s, rep)
		}
	}
	wg.Wait()
	unsupported := map[string]string{}
	for _, s := range all {
		o := base[s.Key()]
		kind := "sql"
		if strings.HasPrefix(o, "PLANERR") || strings.HasPrefix(o, "ERR") {
			kind = "planner_error"
			unsupported[s.Key()] = o
		}
		r.Distinct(s.Key())
		r.Outcome("fresh:" + s.Kind + ":" + kind)
	}
	r.Extra["unsupported_shapes"] = unsupported
	var tl []string
	for t := range types {
		tl = append(tl, t)
	}
	sort.Strings(tl)
	r.Extra["planner_types_instantiated"] = tl
	r.Extra["specs"] = len(all)
	r.Extra["core_specs"] = len(core)

	// ---- phase 1: re-execution (16 worker processes; reference plans are fresh plans built in the same worker;
	// phase 2 shows fresh plans to be history-independent).  Every execution gets a NEW PlannerContext and a
	// new sql.Ctx, as Tail does on every tick.
	rt0 := time.Now()
	reSet := append(append([]Spec(nil), all...), pipelineSpecs()...)
	attrSet := traceqlAttrSpecs() // TraceQL attribute-name alphabet in aggregator / condition position
	reSet = append(reSet, attrSet...)
	r.Extra["reexec_traceql_attr_alphabet_specs"] = len(attrSet)
	reCases, reRejected := int64(0), int64(0)
	benign := map[string]int{}
	chsimVerdicts := map[string]int{}
	var reMismatches []Mismatch
	{
		var wg sync.WaitGroup
		for sh := 0; sh < 16; sh++ {
			wg.Add(1)
			go func(sh int) {
				defer wg.Done()
				out, err := spawn(job{Mode: "reexec", Set: reSet, Shard: sh, NShards: 16})
				if err != nil {
					ev.Fatal("reexec worker: %v", err)
				}
				mu.Lock()
				defer mu.Unlock()
				if err := parseLines(out, func(m Mismatch) { reMismatches = append(reMismatches, m) }, func(s histStats) {
					reCases += s.Histories
					reRejected += s.Rejected
					r.States += s.Histories
					r.Transitions += s.Events
					r.TracesValidated += s.Events
					r.AddEval(s.Events)
				}); err != nil {
					ev.Fatal("%v", err)
				}
			}(sh)
		}
		wg.Wait()
	}
	sort.SliceStable(reMismatches, func(i, j int) bool {
		a, b := reMismatches[i], reMismatches[j]
		if a.Specs[0].Key() != b.Specs[0].Key() {
			return a.Specs[0].Key() < b.Specs[0].Key()
		}
		if a.Adv != b.Adv {
			return a.Adv < b.Adv
		}
		return a.Event < b.Event
	})
	perClass := map[string]int{}
	for _, m := range reMismatches {
		c, w := classify(m)
		r.Outcome("reexec:" + c)
		perClass[c]++
		if perClass[c] > 40 { // chsim execution and reporting for the first 40 of a class; all are counted
			continue
		}
		mv := meaning(m) // both statement lists executed by chsim on the universal database
		mk := mv
		if i := strings.IndexByte(mk, ':'); i > 0 {
			mk = mk[:i]
		}
		chsimVerdicts[c+" -> "+mk]++
		if strings.HasPrefix(c, "benign_") {
			if mk == "differ" || mk == "got_fails" {
				r.Violate("reexec_judged_"+c+"_but_results_differ", w+" — but on the universal database: "+mv, m)
				continue
			}
			benign[c]++
			continue
		}
		r.Violate(c, w+" [chsim on the universal database: "+mv+"]", m)
	}
	r.Extra["reexec_specs"] = len(reSet)
	r.Extra["reexec_cases"] = reCases
	r.Extra["reexec_specs_rejected_by_planner"] = reRejected
	r.Extra["reexec_wall_s"] = time.Since(rt0).Seconds()
	r.Extra["reexec_textual_differences_by_class"] = perClass
	r.Extra["reexec_textual_differences_judged_same_meaning"] = benign
	r.Extra["reexec_differences_executed_on_chsim"] = chsimVerdicts

	// ---- phase 2: histories
	type level struct {
		set      []Spec
		depth    int
		name     string
		explicit [][]Spec
	}
	// confusable neighbours: fresh-process reference of every neighbour (one process each), then every ordered
	// pair (neighbour, spec), (spec, neighbour) [thorough: also neighbour x neighbour of one spec] as histories
	nbPairs, nbUniq := neighbourPairs(all, r.Thorough())
	{
		var wg sync.WaitGroup
		for _, s := range nbUniq {
			wg.Add(1)
			sem <- struct{}{}
			go func(s Spec) {
				defer wg.Done()
				defer func() { <-sem }()
				out, err := spawn(job{Mode: "fresh", Set: []Spec{s}})
				if err != nil {
					ev.Fatal("fresh worker: %v", err)
				}
				var x struct{ Out string }
				if err := json.Unmarshal(out, &x); err != nil {
					ev.Fatal("fresh worker output: %v %.200q", err, out)
				}
				mu.Lock()
				base[s.Key()] = x.Out
				r.AddEval(1)
				r.TracesValidated++
				mu.Unlock()
			}(s)
		}
		wg.Wait()
	}
	nbErr := 0
	for _, s := range nbUniq {
		if o := base[s.Key()]; strings.HasPrefix(o, "ERR") || strings.HasPrefix(o, "PLANERR") {
			nbErr++
		}
	}
	r.Extra["neighbour_specs"] = map[string]int{"distinct": len(nbUniq), "rejected_by_planner": nbErr, "ordered_pairs": len(nbPairs)}
	levels := []level{{all, 2, "neighbours", nbPairs}, {all, 1, "all", nil}, {all, 2, "all", nil}, {core, 3, "core", nil}}
	if r.Thorough() {
		levels = []level{{all, 2, "neighbours", nbPairs}, {all, 1, "all", nil}, {all, 2, "all", nil}, {midSpecs(), 3, "mid40", nil}, {core, 4, "core", nil}}
	}
	// quick runs two of the three plan/execute interleavings on the big levels (immediate, deferred); thorough all three
	scheds := []string{"immediate", "deferred"}
	if r.Thorough() {
		scheds = schedules
	}
	r.Extra["schedules"] = scheds
	curScheds = scheds
	cov := map[string]any{}
	histViolations := 0
	const maxHistViolations = 4
	for _, lv := range levels {
		remaining := time.Until(r.Deadline).Seconds() - 8
		if remaining < 2 {
			r.Cap(fmt.Sprintf("histories depth %d over %s set not started (deadline)", lv.depth, lv.name))
			continue
		}
		if histViolations >= maxHistViolations {
			r.Cap(fmt.Sprintf("histories depth %d over %s set not explored: %d history violations already reported", lv.depth, lv.name, histViolations))
			continue
		}
		nsh := 16
		var hs histStats
		complete := true
		lt0 := time.Now()
		var wg sync.WaitGroup
		for sh := 0; sh < nsh; sh++ {
			wg.Add(1)
			go func(sh int) {
				defer wg.Done()
				start := 0
				for {
					mu.Lock()
					stop := histViolations >= maxHistViolations
					mu.Unlock()
					if stop {
						mu.Lock()
						complete = false
						mu.Unlock()
						return
					}
					out, err := spawn(job{Mode: "hist", Set: lv.set, Pairs: lv.explicit, Scheds: scheds, Base: base, Depth: lv.depth, Shard: sh, NShards: nsh, Start: start,
						BudgetS: time.Until(r.Deadline).Seconds() - 8})
					if err != nil {
						ev.Fatal("history worker: %v", err)
					}
					var mm []Mismatch
					var st histStats
					if err := parseLines(out, func(m Mismatch) { mm = append(mm, m) }, func(s histStats) { st = s }); err != nil {
						ev.Fatal("%v", err)
					}
					mu.Lock()
					hs.Histories += st.Histories
					hs.Events += st.Events
					hs.Expired = hs.Expired || st.Expired
					mu.Unlock()
					for _, m := range mm {
						m.Level = lv.name
						if confirmHistory(r, m, lv.set, lv.explicit, base) {
							mu.Lock()
							histViolations++
							mu.Unlock()
						}
					}
					if st.Done || st.Expired || len(mm) == 0 {
						return
					}
					start = st.Next
				}
			}(sh)
		}
		wg.Wait()
		r.States += hs.Histories
		r.Transitions += hs.Events
		r.TracesValidated += hs.Events
		r.AddEval(hs.Events)
		cov[fmt.Sprintf("depth%d_%s", lv.depth, lv.name)] = map[string]any{"set_size": len(lv.set), "histories_x_schedules": hs.Histories, "events": hs.Events, "complete": complete && !hs.Expired, "wall_s": time.Since(lt0).Seconds()}
		if hs.Expired {
			r.Cap(fmt.Sprintf("histories depth %d over %s set cut by the deadline", lv.depth, lv.name))
		}
		if !complete {
			r.Cap(fmt.Sprintf("histories depth %d over %s set abandoned after %d history violations", lv.depth, lv.name, histViolations))
		}
	}
	r.Extra["history_levels"] = cov

	r.Sample(map[string]any{"spec": all[1], "fresh_sql": base[all[1].Key()]})
	r.Sample(map[string]any{"history": []string{core[0].Q, core[4].Q, core[10].Q}, "schedules": schedules})
	r.Finish()
}

// runAlone runs one history (one schedule) in a fresh process and returns the outcome of every execution event.
func runAlone(specs []Spec, schedule string) []string {
	out, err := spawn(job{Mode: "one", Set: specs, Schedule: schedule})
	if err != nil {
		ev.Fatal("confirm worker: %v", err)
	}
	var x struct{ Outs []string }
	if err := json.Unmarshal(out, &x); err != nil {
		ev.Fatal("confirm output: %v", err)
	}
	return x.Outs
}

// curScheds: the schedules the history workers of this run execute per history (a replayed sequence must run the same).
var curScheds []string

// runSequence replays positions [from, to] of a shard in a fresh process and reports the mismatch (if any) at `to`.
func runSequence(m Mismatch, set []Spec, explicit [][]Spec, base map[string]string, from int) *Mismatch {
	out, err := spawn(job{Mode: "hist", Set: set, Pairs: explicit, Scheds: curScheds, Base: base, Depth: m.Depth, Shard: m.Shard, NShards: m.NShards, Start: from, End: m.Pos + 1, BudgetS: 600})
	if err != nil {
		ev.Fatal("sequence worker: %v", err)
	}
	var res *Mismatch
	if err := parseLines(out, func(x Mismatch) {
		if x.Pos == m.Pos && res == nil {
			res = &x
		}
	}, func(histStats) {}); err != nil {
		ev.Fatal("%v", err)
	}
	return res
}

func histClass(m Mismatch) (string, string) {
	c, w := classify(m)
	c = strings.TrimPrefix(c, "benign_")
	if !strings.HasPrefix(c, "history_") {
		c = "history_" + c
	}
	return c, w
}

// confirmHistory decides what a mismatch seen inside a long-running worker means, using fresh processes only:
//  1. the history alone (3x): reproduces every time -> violation with that history as the replay;
//     reproduces sometimes -> run-to-run nondeterminism (map order), also a violation of "always the same SQL";
//  2. otherwise state leaked from earlier histories of the shard: the shortest suffix [pos-w..pos] (w = 1,2,4,..)
//     of the shard's deterministic enumeration that reproduces it in a fresh process becomes the replay;
//  3. if not even the whole prefix reproduces it: reported as nondeterministic with what is known.
//
// Returns true when a violation was reported (known findings do not count).
func confirmHistory(r *ev.Run, m Mismatch, set []Spec, explicit [][]Spec, base map[string]string) bool {
	before := r.Violations()
	qs := make([]string, len(m.Specs))
	for i, s := range m.Specs {
		qs[i] = s.Kind + ":" + s.Q
	}
	rep := 0
	var got string
	for i := 0; i < 3; i++ {
		if o := runAlone(m.Specs, m.Schedule)[m.Event]; o != m.Want {
			rep++
			got = o
		}
	}
	c, w := histClass(m)
	switch {
	case rep == 3:
		m.Got = got
		c, w = histClass(m)
		m.SeqFrom = m.Pos
		r.Violate(c, fmt.Sprintf("history %v (%s): SQL of event %d differs from the fresh-process SQL: %s", qs, m.Schedule, m.Event, w), m)
	case rep > 0:
		r.Violate("nondeterministic_"+c, fmt.Sprintf("history %v (%s): event %d differs from the fresh-process SQL in %d of 3 fresh runs: %s", qs, m.Schedule, m.Event, rep, w), m)
	default:
		found := false
		for wdt := 1; ; wdt *= 2 {
			from := m.Pos - wdt
			if from < 0 {
				from = 0
			}
			if x := runSequence(m, set, explicit, base, from); x != nil {
				x.Level, x.SeqFrom = m.Level, from
				c, w = histClass(*x)
				r.Violate("leak_"+c, fmt.Sprintf("history %v (%s) renders different SQL for event %d when the %d preceding histories of the enumeration ran in the same process (not when run alone): %s", qs, x.Schedule, x.Event, m.Pos-from, w), *x)
				found = true
				break
			}
			if from == 0 {
				break
			}
		}
		if !found {
			r.Violate("nondeterministic_"+c, fmt.Sprintf("history %v (%s): event %d differed once inside a worker but neither alone nor with the same predecessors in a fresh process: %s", qs, m.Schedule, m.Event, w), m)
		}
	}
	return r.Violations() > before
}

func replay(r *ev.Run) {
	b, err := os.ReadFile(r.Replay)
	if err != nil {
		ev.Fatal("replay: %v", err)
	}
	var f struct{ Replay Mismatch }
	if err := json.Unmarshal(b, &f); err != nil {
		ev.Fatal("replay: %v", err)
	}
	m := f.Replay
	switch m.Mode {
	case "reexec":
		out, err := spawn(job{Mode: "reexec_one", Set: m.Specs, Adv: m.Adv, K: m.K})
		if err != nil {
			ev.Fatal("replay worker: %v", err)
		}
		var x struct{ Mismatches []Mismatch }
		json.Unmarshal(out, &x)
		for _, mm := range x.Mismatches {
			c, w := classify(mm)
			if strings.HasPrefix(c, "benign_") {
				fmt.Printf("replay: textual difference judged same meaning (%s): %s\n", c, w)
				continue
			}
			r.Violate(c, w, mm)
		}
		r.AddEval(int64(m.K))
	case "history":
		curScheds = []string{"immediate", "deferred"}
		if r.Thorough() {
			curScheds = schedules
		}
		set := map[string][]Spec{"all": allSpecs(), "core": coreSpecs(), "mid40": midSpecs()}[m.Level]
		var explicit [][]Spec
		if m.Level == "neighbours" {
			var uniq []Spec
			explicit, uniq = neighbourPairs(allSpecs(), r.Thorough())
			set = append(allSpecs(), uniq...)
		}
		if set == nil || m.SeqFrom == m.Pos || m.Depth == 0 {
			set = m.Specs // the history alone: only its own specs need a fresh-process reference
		}
		base := map[string]string{}
		for _, s := range set {
			out, err := spawn(job{Mode: "fresh", Set: []Spec{s}})
			if err != nil {
				ev.Fatal("replay worker: %v", err)
			}
			var x struct{ Out string }
			json.Unmarshal(out, &x)
			base[s.Key()] = x.Out
		}
		r.AddEval(int64(len(m.Specs)))
		if m.SeqFrom == m.Pos || m.Depth == 0 { // the history alone
			m.Want = base[m.Specs[m.Event].Key()]
			if o := runAlone(m.Specs, m.Schedule)[m.Event]; o != m.Want {
				m.Got = o
				c, w := histClass(m)
				r.Violate(c, w, m)
			}
		} else if x := runSequence(m, set, explicit, base, m.SeqFrom); x != nil {
			c, w := histClass(*x)
			r.Violate("leak_"+c, w, *x)
		}
	case "fresh":
		var outs []string
		for i := 0; i < 6; i++ {
			out, err := spawn(job{Mode: "fresh", Set: m.Specs})
			if err != nil {
				ev.Fatal("replay worker: %v", err)
			}
			var x struct{ Out string }
			json.Unmarshal(out, &x)
			outs = append(outs, x.Out)
			if x.Out != outs[0] {
				c, w := classify(Mismatch{Mode: "fresh", Specs: m.Specs, Got: x.Out, Want: outs[0]})
				r.Violate("nondeterministic_"+c, w, m)
				break
			}
		}
		r.AddEval(6)
	}
	fmt.Printf("replay: %d violation(s)\n", r.Violations())
}
