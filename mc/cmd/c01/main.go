// C01 / C02: exhaustive bounded exploration (engine E1) of the real insert services + promises + handler core.
package main

import (
	"verif/mc/inslib"
)

func main() { inslib.Main("C01") }
