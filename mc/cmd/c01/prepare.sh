# instrument the concurrency core of the ingest path (engine E1); sourced by bin/check with $scratch set
go build -modfile="$scratch/mod/go.mod" -o "$scratch/bin/rewrite" ./mc/rewrite || return 1
"$scratch/bin/rewrite" -repo "$VERIF_REPO" -out "$scratch/inst" -overlay "$scratch/overlay.json" \
   writer/service/genericInsertService.go writer/service/columnPool.go writer/service/insertColumnPools.go writer/utils/promise/promise.go writer/controller/builder.go writer/utils/unmarshal/builder.go writer/utils/unmarshal/shared.go \
   writer/service/impl/samplesInsertService.go writer/service/impl/timeSeriesInsertService.go \
   writer/service/impl/tempoInsertService.go writer/service/impl/profileInsertService.go 2>"$scratch/rewrite.log" || { cat "$scratch/rewrite.log" >&2; return 1; }
