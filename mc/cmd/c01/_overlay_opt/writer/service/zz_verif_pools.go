//go:build verif

package service

import "github.com/ClickHouse/ch-go/proto"

func verifShrink[T proto.ColInput](p *colPool[T], create func() T) {
	p.pool = func() *PooledColumn[T] { return &PooledColumn[T]{Data: create()} }
}

// VerifShrinkPools keeps every pool's release/size behaviour (set by the real CreateColPools) and only replaces
// the *initial capacity* of fresh columns (1 MiB / 10000 entries in production) by a tiny one: an execution of the
// explorer builds dozens of column sets and zeroing megabytes per execution dominated its cost.  append() grows
// the slices exactly as before, so no behaviour of the code under test depends on this.
func VerifShrinkPools() {
	verifShrink(DatePool, func() proto.ColDate { return make(proto.ColDate, 0, 8) })
	verifShrink(Int64Pool, func() proto.ColInt64 { return make(proto.ColInt64, 0, 8) })
	verifShrink(UInt64Pool, func() proto.ColUInt64 { return make(proto.ColUInt64, 0, 8) })
	verifShrink(UInt8Pool, func() proto.ColUInt8 { return make(proto.ColUInt8, 0, 8) })
	verifShrink(Uint32ColPool, func() proto.ColUInt32 { return make(proto.ColUInt32, 0, 8) })
	verifShrink(Float64Pool, func() proto.ColFloat64 { return make(proto.ColFloat64, 0, 8) })
	verifShrink(Int8ColPool, func() proto.ColInt8 { return make(proto.ColInt8, 0, 8) })
	verifShrink(BoolColPool, func() proto.ColBool { return make(proto.ColBool, 0, 8) })
	verifShrink(Uint16ColPool, func() proto.ColUInt16 { return make(proto.ColUInt16, 0, 8) })
	verifShrink(StrPool, func() *proto.ColStr {
		return &proto.ColStr{Buf: make([]byte, 0, 64), Pos: make([]proto.Position, 0, 8)}
	})
	verifShrink(FixedStringPool, func() *proto.ColFixedStr {
		return &proto.ColFixedStr{Buf: make([]byte, 0, 64), Size: 8}
	})
}
