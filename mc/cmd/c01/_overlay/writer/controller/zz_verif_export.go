//go:build verif

package controllerv1

import (
	"net/http"

	"github.com/metrico/qryn/writer/service"
	"github.com/metrico/qryn/writer/utils/helpers"
	"github.com/metrico/qryn/writer/utils/promise"
)

// VerifDoParse exposes the unexported handler core (wait for every promise of every parsed chunk).
func VerifDoParse(r *http.Request, parser Parser) error { return doParse(r, parser) }

// VerifDoPush exposes the bounded-retry submit.
func VerifDoPush(req helpers.SizeGetter, insertMode int, svc service.IInsertServiceV2) *promise.Promise[uint32] {
	return doPush(req, insertMode, svc)
}
