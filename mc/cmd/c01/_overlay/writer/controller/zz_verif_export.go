//go:build verif

package controllerv1

import "net/http"

// VerifDoParse exposes the unexported handler core (parse, submit every chunk, wait for every promise).
func VerifDoParse(r *http.Request, parser Parser) error { return doParse(r, parser) }
