//go:build verif

package promise

// VerifState reports (pending, err) without blocking.
func (p *Promise[T]) VerifState() (bool, error) { return p.pending != 0, p.err }
