// C19 — Retention settings converge to the configuration and re-applying them is a no-op.
//
// Model checking of the real retention entry point (ctrl.Rotate → maintenance.InitDB/RotateAll → rotateDB →
// maintenance.Rotate) over verif/mc/fakeconn: level-synchronous BFS over (catalogue TTL / storage policy per
// table, rows of `settings`) for sequences of ≤ 3 runs, any configuration of the alphabet at each run, any
// statement of a run as fault point.  See NOTES.md.
package main

import (
	"encoding/json"
	"errors"
	"fmt"
	"math"
	"os"
	"runtime"
	"runtime/debug"
	"runtime/pprof"
	"sort"
	"strconv"
	"strings"
	"sync"
	"time"

	"verif/mc/ev"
	"verif/mc/fakeconn"
	"verif/mc/fakeconn/ctrlrun"
)

const dbName = "qryn_db"

// ---------------------------------------------------------------------------------------------------------------
// reference model: what the catalogue must look like after a successful run with a configuration

func isDataTable(t *fakeconn.Table) bool {
	return t.IsMergeTree() && t.Name != "ver" && t.Name != "settings"
}

// clampOf: index tables (keyed by a `date` column) move no earlier than one day, sample tables (timestamp_ns
// only) no earlier than one minute.
func clampOf(t *fakeconn.Table) int64 {
	if t.HasColumn("date") {
		return 86400
	}
	return 60
}

type wantElem struct {
	Seconds int64
	Action  string
	Raw     int64 // configured seconds before the clamp (moves only)
}

func expectedTTL(t *fakeconn.Table, c ctrlrun.Config) []wantElem {
	var out []wantElem
	for _, p := range c.TTLPolicy {
		d, err := time.ParseDuration(p.Timeout)
		if err != nil {
			ev.Fatal("alphabet: bad duration %q", p.Timeout)
		}
		sec := int64(math.Floor(d.Seconds()))
		w := wantElem{Seconds: sec, Action: "DISK:" + p.MoveTo, Raw: sec}
		if w.Seconds < clampOf(t) {
			w.Seconds = clampOf(t)
		}
		out = append(out, w)
	}
	return append(out, wantElem{Seconds: int64(c.TTLDays) * 86400, Action: "DELETE", Raw: -1})
}

// ttlMismatch explains how the table's TTL differs from the expectation ("" = equal).
func ttlMismatch(t *fakeconn.Table, c ctrlrun.Config) (kind, what string) {
	want := expectedTTL(t, c)
	got := t.TTL
	if len(got) != len(want) {
		return "count", fmt.Sprintf("TTL of %s has %d element(s) %v, configuration wants %d %v", t.Name, len(got), got, len(want), want)
	}
	for i := range want {
		ids := fakeconn.Idents(got[i].Base)
		okBase := len(ids) > 0
		for _, id := range ids {
			if id != "date" && id != "timestamp_ns" {
				okBase = false
			}
		}
		if !okBase {
			return "base", fmt.Sprintf("TTL element %d of %s is based on %q", i, t.Name, got[i].Base)
		}
		if got[i].Seconds != want[i].Seconds || got[i].Action != want[i].Action {
			k := "value"
			switch {
			case want[i].Raw > math.MaxInt32:
				k = "overflow"
			case want[i].Raw >= 0 && want[i].Raw < clampOf(t) && got[i].Seconds < clampOf(t):
				k = "clamp"
			}
			return k, fmt.Sprintf("TTL element %d of %s is %v, configuration wants +%ds→%s", i, t.Name, got[i], want[i].Seconds, want[i].Action)
		}
	}
	return "", ""
}

// ---------------------------------------------------------------------------------------------------------------

type finding struct{ Class, What string }

type stepResult struct {
	st       *fakeconn.State
	proc     *fakeconn.Proc
	err      error
	panicked bool
	findings []finding
	altered  map[string]bool // tables a MODIFY TTL was issued for (applied or not)
	alteredP map[string]bool // tables a MODIFY SETTING storage_policy was issued for
	alters   int
	alterOwn map[string]bool // fingerprints of the markers whose groups issued an ALTER (see owners)
}

// markerNames maps fingerprint → marker name (filled from the INSERTs seen; the fingerprint function is the
// implementation's business).
var markerNames sync.Map

func isInjected(err error) bool {
	var ie *fakeconn.InjectedError
	return errors.As(err, &ie)
}

// step runs ctrl.Rotate once on a copy of st and evaluates the oracles that concern a single run:
// O2 (a marker is written only when every table of its group carries the value) — always;
// O1 (every data table matches the configuration) — when the run returned nil.
// interrupted tells whether this run or an earlier run of the sequence was faulted (used only to explain findings).
func (x *explorer) step(st0 *fakeconn.State, cfg ctrlrun.Config, plan []fakeconn.Fault, interrupted bool) *stepResult {
	st := st0.Clone()
	proc := fakeconn.NewProc(st, plan...)
	r := &stepResult{st: st, proc: proc, altered: map[string]bool{}, alteredP: map[string]bool{}, alterOwn: map[string]bool{}}
	proc.OnApplied = func(e *fakeconn.Entry) {
		// O2: at the instant a marker row of type `rotate` is written with a value, every table the marker vouches
		// for (see groups.go) carries that value.
		t, ok := touchOf(e)
		if !ok || !t.write {
			return
		}
		tp, _ := e.Stmt.InsertValue("type")
		nm, _ := e.Stmt.InsertValue("name")
		val, _ := e.Stmt.InsertValue("value")
		if tp.Text != "rotate" {
			return
		}
		markerNames.Store(t.fp, nm.Text)
		v := val.Text
		if v == "" || x.mem == nil {
			return // an empty value claims nothing
		}
		ttl, terr := fakeconn.ParseTTLText(v)
		kind := "policy"
		if terr == nil && len(ttl) > 0 {
			kind = "ttl"
		}
		for _, tn := range x.mem.members[gkey{nm.Text, kind}] {
			t := st.Table(dbName, tn)
			if t == nil {
				continue
			}
			ok := false
			if kind == "ttl" {
				ok = len(ttl) == len(t.TTL)
				for i := 0; ok && i < len(ttl); i++ {
					ok = ttl[i] == t.TTL[i]
				}
			} else {
				ok = t.StoragePolicy() == v
			}
			if !ok {
				r.findings = append(r.findings, finding{"marker_written_before_alters:" + nm.Text,
					fmt.Sprintf("marker (rotate,%s)=%q written at statement %d while table %s of its group does not carry that value yet (TTL %v, policy %s)",
						nm.Text, v, e.Index, tn, t.TTL, t.StoragePolicy())})
				return
			}
		}
	}
	r.err, r.panicked = ctrlrun.Rotate(proc, cfg)
	own := owners(proc.Log)
	for i, e := range proc.Log {
		if e.Stmt == nil || e.Stmt.Kind != "alter" {
			continue
		}
		r.alters++
		switch alterKind(e.Stmt) {
		case "ttl":
			r.altered[e.Target] = true
		case "policy":
			r.alteredP[e.Target] = true
		}
		r.alterOwn[own[i]] = true
	}
	if proc.HarnessErr != nil {
		ev.Fatal("fake connection: %v", proc.HarnessErr)
	}
	if r.panicked && !isInjected(r.err) {
		var ce *fakeconn.CHError
		if !errors.As(r.err, &ce) {
			r.findings = append(r.findings, finding{"panic_in_rotate", fmt.Sprintf("ctrl.Rotate panicked: %v", r.err)})
		}
	}
	if r.err == nil {
		r.findings = append(r.findings, x.successOracle(r, cfg, interrupted || len(plan) > 0)...)
	}
	return r
}

func (x *explorer) successOracle(r *stepResult, cfg ctrlrun.Config, interrupted bool) []finding {
	var out []finding
	for _, tn := range r.st.TableNames(dbName) {
		t := r.st.Table(dbName, tn)
		if !isDataTable(t) {
			continue
		}
		rotated := x.mem != nil && x.mem.rotated[tn]
		if kind, what := ttlMismatch(t, cfg); kind != "" {
			switch {
			case !rotated:
				out = append(out, finding{"data_table_not_rotated:" + tn, "after a successful run " + what + " — no run ever alters this table"})
			case kind == "overflow":
				out = append(out, finding{"ttl_seconds_int32_overflow:" + tn, "after a successful run " + what})
			case kind == "clamp":
				out = append(out, finding{"clamp_not_applied:" + tn, "after a successful run " + what})
			case !r.altered[tn] && interrupted:
				out = append(out, finding{"stale_ttl_after_interrupted_change:" + tn,
					"after a successful run " + what + " — the run issued no ALTER for the table (it trusted the recorded marker) and an earlier run of the sequence was interrupted"})
			case !r.altered[tn]:
				out = append(out, finding{"ttl_wrong_and_no_alter_issued:" + tn, "after a successful run " + what + " — the run issued no ALTER for the table"})
			default:
				out = append(out, finding{"wrong_ttl_applied:" + tn, "after a successful run that altered the table " + what})
			}
		}
		if cfg.StoragePolicy != "" && t.StoragePolicy() != cfg.StoragePolicy {
			what := fmt.Sprintf("after a successful run storage policy of %s is %q, configuration wants %q", tn, t.StoragePolicy(), cfg.StoragePolicy)
			switch {
			case !rotated:
				out = append(out, finding{"data_table_not_rotated:" + tn, what + " — no run ever alters this table"})
			case !r.alteredP[tn] && interrupted:
				out = append(out, finding{"stale_storage_policy_after_interrupted_change:" + tn, what + " — the run issued no ALTER for the table (it trusted the recorded marker) and an earlier run of the sequence was interrupted"})
			case !r.alteredP[tn]:
				out = append(out, finding{"storage_policy_wrong_and_no_alter_issued:" + tn, what + " — the run issued no ALTER for the table"})
			default:
				out = append(out, finding{"wrong_storage_policy_applied:" + tn, what})
			}
		}
	}
	return out
}

// ---------------------------------------------------------------------------------------------------------------

type runSpec struct {
	Config ctrlrun.Config   `json:"config"`
	Faults []fakeconn.Fault `json:"faults"`
}

type replayDoc struct {
	Cluster    bool      `json:"cluster"`
	InitPolicy string    `json:"init_storage_policy"`
	Runs       []runSpec `json:"runs"`
	Then       string    `json:"then,omitempty"` // which follow-up run showed the problem
}

type node struct {
	id     int
	st     *fakeconn.State
	parent int
	via    runSpec
	depth  int
	faults int
}

type explorer struct {
	r          *ev.Run
	cluster    bool
	initPolicy string
	configs    []ctrlrun.Config
	maxDepth   int
	maxFaults  int
	workers    int
	mem        *membership // which tables each marker vouches for (groups.go)
	nodes      []*node
	index      map[skey]int
	mu         sync.Mutex
	runs       int64
	faultKinds map[string]int64
	reported   map[string]int
	outcomes   map[string]int64
	stateCount int
}

var positions = []fakeconn.Pos{fakeconn.ErrBefore, fakeconn.ErrAfter, fakeconn.KillAfter}

func (x *explorer) label() string {
	return fmt.Sprintf("cluster=%v/init_policy=%q", x.cluster, x.initPolicy)
}

func (x *explorer) baseConfig() ctrlrun.Config {
	c := ctrlrun.Config{Name: "init", DB: dbName, TTLDays: 7, StoragePolicy: x.initPolicy}
	if x.cluster {
		c.Cluster = "c1"
	}
	return c
}

func (x *explorer) path(id int) []runSpec {
	var rev []runSpec
	for id > 0 {
		n := x.nodes[id]
		rev = append(rev, n.via)
		id = n.parent
	}
	out := make([]runSpec, 0, len(rev)+2)
	for i := len(rev) - 1; i >= 0; i-- {
		out = append(out, rev[i])
	}
	return out
}

func descr(runs []runSpec) string {
	var d []string
	for _, s := range runs {
		if len(s.Faults) == 0 {
			d = append(d, "run("+s.Config.Name+")")
		} else {
			d = append(d, fmt.Sprintf("run(%s)[%s@%d]", s.Config.Name, s.Faults[0].Pos, s.Faults[0].Index))
		}
	}
	return strings.Join(d, " → ")
}

type report struct {
	runs []runSpec
	then string
	f    finding
}

func (x *explorer) violate(rep report) {
	if x.reported == nil {
		x.reported = map[string]int{}
	}
	x.reported[rep.f.Class]++
	if x.reported[rep.f.Class] > 2 {
		return // two witnesses per class and exploration
	}
	x.r.Violate(rep.f.Class, fmt.Sprintf("%s: %s: %s", x.label(), descr(rep.runs), rep.f.What),
		replayDoc{Cluster: x.cluster, InitPolicy: x.initPolicy, Runs: rep.runs, Then: rep.then})
}

type skey struct {
	fp     [2]uint64
	faults int
}

func stateKey(st *fakeconn.State, faults int) skey { return skey{st.Fingerprint(), faults} }

func (x *explorer) initialState() *fakeconn.State {
	st := fakeconn.NewState(nil, []string{"c1"})
	p := fakeconn.NewProc(st)
	if err, _ := ctrlrun.Init(p, x.baseConfig()); err != nil || p.HarnessErr != nil {
		ev.Fatal("cannot build the initial catalogue with ctrl.Init: %v %v", err, p.HarnessErr)
	}
	return st
}

// deriveGroups builds the marker → tables relation from a reference run that has everything to do (no markers, a
// storage policy configured) and from the call arguments of Rotate in the tree under test.
func (x *explorer) deriveGroups(st0 *fakeconn.State) {
	cfg := x.baseConfig()
	cfg.StoragePolicy, cfg.Name = "p1", "reference"
	st := st0.Clone()
	p := fakeconn.NewProc(st)
	err, _ := ctrlrun.Rotate(p, cfg)
	if p.HarnessErr != nil {
		ev.Fatal("fake connection (reference run): %v", p.HarnessErr)
	}
	_ = err // a failing uninterrupted run is reported by the exploration itself; what was observed is still used
	x.mem = buildMembership(p.Log)
}

type expansion struct {
	outcomes map[string]int64
	reports  []report
	succ     []succ
	runs     int64
	kinds    map[string]int64
}

type succ struct {
	st     *fakeconn.State
	via    runSpec
	faults int
}

func stmtKind(e *fakeconn.Entry) string {
	if e.Stmt == nil {
		return "unparsed"
	}
	if t, ok := touchOf(e); ok {
		if t.write {
			return "marker_insert"
		}
		return "marker_lookup"
	}
	switch e.Stmt.Kind {
	case "alter":
		return "alter:" + e.Stmt.Cmds[0].Op
	}
	return e.Stmt.Kind
}

// expand evaluates every fault plan of one configuration from one node.
func (x *explorer) expand(n *node, cfgs []ctrlrun.Config) *expansion {
	ex := &expansion{kinds: map[string]int64{}, outcomes: map[string]int64{}}
	base := x.path(n.id)
	seenClass := map[string]bool{}
	add := func(runs []runSpec, then string, fs []finding) {
		for _, f := range fs {
			ex.outcomes["finding:"+strings.SplitN(f.Class, ":", 2)[0]]++
			if seenClass[f.Class] {
				continue // one witness per class and expansion is enough
			}
			seenClass[f.Class] = true
			ex.reports = append(ex.reports, report{append([]runSpec(nil), runs...), then, f})
		}
	}
	for _, cfg := range cfgs {
		// uninterrupted run
		clean := x.step(n.st, cfg, nil, n.faults > 0)
		ex.runs++
		runs := append(append([]runSpec(nil), base...), runSpec{cfg, nil})
		add(runs, "", clean.findings)
		if clean.err == nil && clean.alters == 0 {
			ex.outcomes["uninterrupted_run:nothing_to_do"]++
		} else if clean.err == nil {
			ex.outcomes["uninterrupted_run:alters_and_records"]++
		}
		if clean.err != nil {
			add(runs, "", []finding{x.classifyFailure("uninterrupted_run_fails", clean)})
		} else {
			// O3: an immediate re-run with the same configuration issues no ALTER
			again := x.step(clean.st, cfg, nil, n.faults > 0)
			ex.runs++
			rr := append(append([]runSpec(nil), runs...), runSpec{cfg, nil})
			add(rr, "rerun", again.findings)
			if again.err != nil {
				add(rr, "rerun", []finding{x.classifyFailure("rerun_fails", again)})
			} else if again.alters > 0 {
				for _, f := range x.rerunFindings(again) {
					add(rr, "rerun", []finding{f})
				}
			}
		}
		ex.succ = append(ex.succ, succ{clean.st, runSpec{cfg, nil}, n.faults})
		if n.faults >= x.maxFaults {
			continue
		}
		for i := 0; i < len(clean.proc.Log); i++ {
			ex.kinds[stmtKind(clean.proc.Log[i])] += int64(len(positions))
			for _, pos := range positions {
				plan := []fakeconn.Fault{{Index: i, Pos: pos}}
				in := x.step(n.st, cfg, plan, true)
				ex.runs++
				fr := append(append([]runSpec(nil), base...), runSpec{cfg, plan})
				add(fr, "", in.findings)
				if in.err == nil {
					ex.outcomes["faulted_run:returns_nil"]++
				} else if in.st.Fingerprint() == n.st.Fingerprint() {
					ex.outcomes["faulted_run:error_state_unchanged"]++
				} else {
					ex.outcomes["faulted_run:error_state_partially_changed"]++
				}
				ex.succ = append(ex.succ, succ{in.st, runSpec{cfg, plan}, n.faults + 1})
				// O4: the next run with the same configuration completes the interrupted one
				fin := x.step(in.st, cfg, nil, true)
				ex.runs++
				nr := append(append([]runSpec(nil), fr...), runSpec{cfg, nil})
				add(nr, "next_run", fin.findings)
				switch {
				case fin.err != nil:
					add(nr, "next_run", []finding{x.classifyFailure("run_after_interruption_fails", fin)})
				case clean.err == nil && fin.st.Fingerprint() != clean.st.Fingerprint():
					d := fakeconn.DiffSchema(clean.st, fin.st)
					cl := "settings_rows"
					if d != "" {
						cl = strings.SplitN(d, ":", 2)[0]
					} else {
						d = "rows of settings differ"
					}
					add(nr, "next_run", []finding{{"state_after_interruption_differs:" + cl,
						"interrupted run + next run end in a different state than the uninterrupted run: " + d}})
				}
			}
		}
	}
	return ex
}

// rerunFindings explains the ALTERs of a re-run with unchanged configuration: by the marker whose group issued them.
func (x *explorer) rerunFindings(again *stepResult) []finding {
	var fps []string
	for fp := range again.alterOwn {
		fps = append(fps, fp)
	}
	sort.Strings(fps)
	var out []finding
	for _, fp := range fps {
		name := "?"
		if v, ok := markerNames.Load(fp); ok {
			name = v.(string)
		}
		cl := "rerun_issues_alter:" + name
		if x.mem != nil && x.mem.shared(name) {
			cl = "marker_key_collision:" + name
		}
		out = append(out, finding{cl, fmt.Sprintf("immediate re-run with unchanged configuration issues ALTER statements again for the group of marker (rotate,%s) — %d ALTER(s) in total",
			name, again.alters)})
	}
	return out
}

func (x *explorer) classifyFailure(prefix string, r *stepResult) finding {
	var failing *fakeconn.Entry
	for _, e := range r.proc.Log {
		if e.Err != nil && !isInjected(e.Err) {
			failing = e
			break
		}
	}
	if failing == nil {
		return finding{prefix + ":unknown", fmt.Sprintf("fault-free run returned %v", r.err)}
	}
	kind, name, table := "?", "error", ""
	if failing.Stmt != nil {
		kind, table = failing.Stmt.Kind, failing.Stmt.Name.Name
	}
	var ce *fakeconn.CHError
	if errors.As(failing.Err, &ce) {
		name = ce.Name
	}
	return finding{fmt.Sprintf("%s:%s:%s:%s", prefix, kind, name, table),
		fmt.Sprintf("fault-free run fails at statement %d (%s): %v", failing.Index, strings.SplitN(strings.TrimSpace(failing.SQL), "\n", 2)[0], failing.Err)}
}

func (x *explorer) explore() {
	r := x.r
	init := x.initialState()
	x.deriveGroups(init)
	x.index = map[skey]int{}
	x.nodes = append(x.nodes, &node{id: 0, st: init, parent: -1})
	x.index[stateKey(init, 0)] = 0
	r.Distinct(x.label() + "/init")
	r.Sample(map[string]any{"exploration": x.label(), "marker_groups": x.mem.describe(), "call_argument_cross_check": x.mem.astNote,
		"configurations": len(x.configs)})
	frontier := []int{0}
	lastLevelStates := 0
	for depth := 0; depth < x.maxDepth && len(frontier) > 0; depth++ {
		last := depth+1 >= x.maxDepth
		nc := len(x.configs)
		res := make([]*expansion, len(frontier)*nc)
		// successors are de-duplicated by the workers so that only new states are kept in memory; among equal
		// states the one produced by the smallest (task, successor) index wins, which keeps witnesses deterministic
		type cand struct {
			task, sub int
			s         succ
		}
		level := map[skey]*cand{}
		var lmu sync.Mutex
		var wg sync.WaitGroup
		ch := make(chan int, 64)
		for w := 0; w < x.workers; w++ {
			wg.Add(1)
			go func() {
				defer wg.Done()
				for i := range ch {
					if time.Now().After(r.Deadline) {
						continue
					}
					ex := x.expand(x.nodes[frontier[i/nc]], x.configs[i%nc:i%nc+1])
					keys := make([]skey, len(ex.succ))
					for j, sc := range ex.succ {
						f := sc.faults
						if f > x.maxFaults {
							f = x.maxFaults
						}
						keys[j] = stateKey(sc.st, f)
					}
					lmu.Lock()
					for j, sc := range ex.succ {
						if _, old := x.index[keys[j]]; old {
							continue
						}
						if c, ok := level[keys[j]]; ok && (c.task < i || (c.task == i && c.sub <= j)) {
							continue
						}
						if last {
							sc.st = nil // states of the last level are never expanded: only their key is kept
						}
						level[keys[j]] = &cand{i, j, sc}
					}
					lmu.Unlock()
					ex.succ = nil
					res[i] = ex
				}
			}()
		}
		for i := range res {
			ch <- i
		}
		close(ch)
		wg.Wait()
		for ri, ex := range res {
			if ex == nil {
				r.Cap("internal deadline reached")
				r.Extra["frontier_left "+x.label()] = len(frontier) - ri/nc
				break
			}
			r.Transitions += ex.runs
			r.TracesValidated += ex.runs
			r.AddEval(ex.runs)
			for k, v := range ex.kinds {
				x.faultKinds[k] += v
			}
			for k, v := range ex.outcomes {
				x.outcomes[k] += v
			}
			for _, rep := range ex.reports {
				x.violate(rep)
			}
		}
		if !r.Exhaustive {
			break
		}
		if last {
			lastLevelStates = len(level)
			break
		}
		cands := make([]*cand, 0, len(level))
		keyOf := map[*cand]skey{}
		for k, c := range level {
			cands = append(cands, c)
			keyOf[c] = k
		}
		sort.Slice(cands, func(a, b int) bool {
			if cands[a].task != cands[b].task {
				return cands[a].task < cands[b].task
			}
			return cands[a].sub < cands[b].sub
		})
		var next []int
		for _, c := range cands {
			id := len(x.nodes)
			x.index[keyOf[c]] = id
			x.nodes = append(x.nodes, &node{id: id, st: c.s.st, parent: frontier[c.task/nc], via: c.s.via, depth: depth + 1, faults: c.s.faults})
			next = append(next, id)
		}
		frontier = next
	}
	x.stateCount = len(x.nodes) + lastLevelStates
	r.States += int64(x.stateCount)
	for i := 0; i < x.stateCount && i < 4000; i++ {
		r.Distinct(fmt.Sprintf("%s/%d", x.label(), i))
	}
}

// ---------------------------------------------------------------------------------------------------------------

var (
	polNone  []ctrlrun.Policy
	pol30s   = []ctrlrun.Policy{{Timeout: "30s", MoveTo: "d1"}}                                // below both clamps
	pol2h48h = []ctrlrun.Policy{{Timeout: "2h", MoveTo: "d1"}, {Timeout: "48h", MoveTo: "d2"}} // between / above the clamps
	pol100y  = []ctrlrun.Policy{{Timeout: "876000h", MoveTo: "d1"}}                            // more seconds than an int32 holds
)

// alphabet: the cross product days × move policies × storage policies.
func alphabet(cluster bool, days []int, pols [][]ctrlrun.Policy, sps []string) []ctrlrun.Config {
	var out []ctrlrun.Config
	for _, d := range days {
		for _, p := range pols {
			for _, sp := range sps {
				var ps []string
				for _, e := range p {
					ps = append(ps, e.Timeout+">"+e.MoveTo)
				}
				c := ctrlrun.Config{Name: fmt.Sprintf("ttl%dd/moves[%s]/policy=%q", d, strings.Join(ps, ","), sp), DB: dbName, TTLDays: d,
					TTLPolicy: p, StoragePolicy: sp}
				if cluster {
					c.Cluster = "c1"
				}
				out = append(out, c)
			}
		}
	}
	return out
}

type plan struct {
	name       string
	cluster    bool
	initPolicy string
	configs    []ctrlrun.Config
	maxFaults  int
}

func plans(thorough bool) []plan {
	p3 := [][]ctrlrun.Policy{polNone, pol30s, pol2h48h}
	out := []plan{
		{"A12", false, "", alphabet(false, []int{1, 7}, p3, []string{"", "p1"}), 1},
		{"A12", true, "", alphabet(true, []int{1, 7}, p3, []string{"", "p1"}), 1},
		// two non-empty storage policies and a 100-year move, tables created with policy p1
		{"AX4", false, "p1", alphabet(false, []int{7}, [][]ctrlrun.Policy{polNone, pol100y}, []string{"p1", "p2"}), 1},
	}
	if thorough {
		out = append(out,
			// cheapest first: a run cut short by its deadline reports what it finished
			plan{"A24", false, "p1", alphabet(false, []int{1, 7}, [][]ctrlrun.Policy{polNone, pol30s, pol2h48h, pol100y}, []string{"", "p1", "p2"}), 1},
			plan{"A24", true, "", alphabet(true, []int{1, 7}, [][]ctrlrun.Policy{polNone, pol30s, pol2h48h, pol100y}, []string{"", "p1", "p2"}), 1},
			plan{"A4", true, "", alphabet(true, []int{7}, [][]ctrlrun.Policy{polNone, pol30s}, []string{"", "p1"}), 2},
			plan{"A6", false, "", alphabet(false, []int{7}, p3, []string{"", "p1"}), 2},
		)
	}
	return out
}

func replay(r *ev.Run) {
	b, err := os.ReadFile(r.Replay)
	if err != nil {
		ev.Fatal("replay: %v", err)
	}
	var doc struct {
		Replay replayDoc `json:"replay"`
	}
	if err := json.Unmarshal(b, &doc); err != nil {
		ev.Fatal("replay: %v", err)
	}
	x := &explorer{r: r, cluster: doc.Replay.Cluster, initPolicy: doc.Replay.InitPolicy, faultKinds: map[string]int64{}, outcomes: map[string]int64{}}
	st := x.initialState()
	x.deriveGroups(st)
	interrupted := false
	for i, s := range doc.Replay.Runs {
		res := x.step(st, s.Config, s.Faults, interrupted)
		interrupted = interrupted || len(s.Faults) > 0
		fmt.Printf("run %d %s faults=%v: returned %v; %d statements, %d ALTER\n", i+1, s.Config.Name, s.Faults, res.err, len(res.proc.Log), res.alters)
		for _, e := range res.proc.Log {
			mark := ""
			if e.Err != nil {
				mark = fmt.Sprintf("  -> %v (applied=%v)", e.Err, e.Applied)
			}
			fmt.Printf("   %2d %s %v%s\n", e.Index, strings.Join(strings.Fields(e.SQL), " "), e.Args, mark)
		}
		for _, tn := range res.st.TableNames(dbName) {
			if t := res.st.Table(dbName, tn); isDataTable(t) {
				fmt.Printf("      %-24s policy=%-8s ttl=%v\n", tn, t.StoragePolicy(), t.TTL)
			}
		}
		for _, f := range res.findings {
			r.Violate(f.Class, fmt.Sprintf("replay run %d: %s", i+1, f.What), doc.Replay)
		}
		if i == len(doc.Replay.Runs)-1 && doc.Replay.Then == "rerun" && res.alters > 0 {
			for _, f := range x.rerunFindings(res) {
				r.Violate(f.Class, fmt.Sprintf("replay run %d: %s", i+1, f.What), doc.Replay)
			}
		}
		if res.err != nil && len(s.Faults) == 0 {
			f := x.classifyFailure("run_fails", res)
			r.Violate(f.Class, f.What, doc.Replay)
		}
		st = res.st
	}
	r.States, r.Transitions = 1, int64(len(doc.Replay.Runs))
	r.AddEval(int64(len(doc.Replay.Runs)))
	r.Finish()
}

func main() {
	debug.SetGCPercent(200)
	r := ev.Start("C19", "model_checking", 75*time.Second, 15*time.Minute)
	r.Rule = "level-synchronous BFS over states (canonical catalogue of the fake server: TTL elements, storage policy, settings of every table + collapsed rows of `settings`); " +
		"a transition is one real run of ctrl.Rotate with any configuration of the alphabet and no fault or one fault (statement index × {error before effect, effect then error, effect then kill}); " +
		"sequences of ≤ 3 runs; after every successful run an immediate re-run, after every interrupted run the completing run are checked"
	r.Assumptions = []string{
		"the initial catalogue is the one the real ctrl.Init builds on the fake server (same cluster mode); profile, trace and log tables exist",
		"logical clock: NOW() is strictly increasing from one statement to the next, so the latest marker row of a key is the last one written (runs at least a second apart; two writes to one key inside one run would tie on a real second-resolution NOW())",
		"ClickHouse keeps one `settings` row per fingerprint after merges (ReplacingMergeTree); the fake merges at once — the only lookup (argMax by inserted_at) cannot tell",
		"the disks and storage policies named in the configuration exist on the server and every MODIFY SETTING storage_policy is acceptable to it",
		"one catalogue models the whole cluster (ON CLUSTER applies atomically); settings_dist reads the local settings table",
		"heputils.FingerprintLabelsDJBHashPrometheus is run for real; no wall-clock or random input reaches the statements Rotate issues",
	}
	if r.Replay != "" {
		replay(r)
		return
	}
	if pf := os.Getenv("C19_PROF"); pf != "" {
		f, _ := os.Create(pf)
		pprof.StartCPUProfile(f)
	}
	kinds := map[string]int64{}
	outcomes := map[string]int64{}
	per := map[string]any{}
	for _, p := range plans(r.Thorough()) {
		if r.Expired() {
			break
		}
		mf := p.maxFaults
		if s := os.Getenv("C19_MAX_FAULTS"); s != "" {
			mf, _ = strconv.Atoi(s)
		}
		x := &explorer{r: r, cluster: p.cluster, initPolicy: p.initPolicy, configs: p.configs, maxDepth: 3,
			maxFaults: mf, workers: runtime.NumCPU(), faultKinds: kinds, outcomes: outcomes}
		t0, tr0 := time.Now(), r.Transitions
		x.explore()
		per[fmt.Sprintf("%s/alphabet=%s(%d configs)/faulted_runs≤%d", x.label(), p.name, len(x.configs), mf)] = map[string]any{
			"states": x.stateCount, "runs": r.Transitions - tr0, "wall_s": time.Since(t0).Seconds()}
	}
	for k, v := range outcomes {
		r.Outcome(k)
		_ = v
	}
	pprof.StopCPUProfile()
	r.Extra["outcome_counts"] = outcomes
	r.Extra["per_exploration"] = per
	r.Extra["fault_points_by_statement_kind"] = kinds
	r.Extra["max_runs_per_sequence"] = 3
	r.Extra["fault_positions"] = []string{"err_before", "err_after", "kill_after"}
	r.Finish()
}
