package main

// Which tables does a retention marker vouch for?  Two independent sources, neither of which counts statements:
//
//  1. the source of the code under test, read at run time with go/ast: the calls inside maintenance.Rotate to
//     package functions with a variadic `...string` tail — the tail literals are the tables, the other string
//     literals of the call are candidate marker names (rotateTables(..., "v3_samples_days", logger, "samples_v3"));
//  2. observation of a reference run that has everything to do: every ALTER is owned by the setting (fingerprint)
//     whose lookup / clear / write statements enclose it in the log.
//
// A marker (name, kind) vouches for the union of both; the evidence records whether they agree.

import (
	"go/ast"
	"go/parser"
	"go/token"
	"path/filepath"
	"sort"
	"strconv"
	"strings"

	"verif/mc/ev"
	"verif/mc/fakeconn"
)

type astGroup struct {
	Callee string
	Names  []string // string literals among the fixed arguments
	Tables []string // string literals of the variadic tail
}

// parseRotateCalls reads ctrl/qryn/maintenance/*.go of the tree under test.
func parseRotateCalls() (groups []astGroup, note string) {
	dir := filepath.Join(ev.Repo(), "ctrl", "qryn", "maintenance")
	files, _ := filepath.Glob(filepath.Join(dir, "*.go"))
	fset := token.NewFileSet()
	funcs := map[string]*ast.FuncDecl{}
	for _, f := range files {
		if strings.HasSuffix(f, "_test.go") {
			continue
		}
		af, err := parser.ParseFile(fset, f, nil, 0)
		if err != nil {
			return nil, "cannot parse " + f + ": " + err.Error()
		}
		for _, d := range af.Decls {
			if fd, ok := d.(*ast.FuncDecl); ok && fd.Recv == nil {
				funcs[fd.Name.Name] = fd
			}
		}
	}
	rot := funcs["Rotate"]
	if rot == nil || rot.Body == nil {
		return nil, "func Rotate not found in " + dir
	}
	strLit := func(e ast.Expr) (string, bool) {
		bl, ok := e.(*ast.BasicLit)
		if !ok || bl.Kind != token.STRING {
			return "", false
		}
		v, err := strconv.Unquote(bl.Value)
		return v, err == nil
	}
	var skipped []string
	ast.Inspect(rot.Body, func(n ast.Node) bool {
		call, ok := n.(*ast.CallExpr)
		if !ok {
			return true
		}
		id, ok := call.Fun.(*ast.Ident)
		if !ok {
			return true
		}
		fd := funcs[id.Name]
		if fd == nil || fd.Type.Params == nil || len(fd.Type.Params.List) == 0 {
			return true
		}
		last := fd.Type.Params.List[len(fd.Type.Params.List)-1]
		ell, ok := last.Type.(*ast.Ellipsis)
		if !ok {
			return true
		}
		if et, ok := ell.Elt.(*ast.Ident); !ok || et.Name != "string" {
			return true
		}
		fixed := 0
		for _, f := range fd.Type.Params.List {
			if len(f.Names) == 0 {
				fixed++
			} else {
				fixed += len(f.Names)
			}
		}
		fixed-- // the variadic parameter
		if len(call.Args) < fixed || call.Ellipsis != token.NoPos {
			skipped = append(skipped, id.Name)
			return true
		}
		g := astGroup{Callee: id.Name}
		for _, a := range call.Args[:fixed] {
			if v, ok := strLit(a); ok {
				g.Names = append(g.Names, v)
			}
		}
		for _, a := range call.Args[fixed:] {
			v, ok := strLit(a)
			if !ok {
				skipped = append(skipped, id.Name)
				return true
			}
			g.Tables = append(g.Tables, v)
		}
		groups = append(groups, g)
		return true
	})
	if len(skipped) > 0 {
		note = "calls with non-literal table arguments ignored: " + strings.Join(skipped, ",")
	}
	if len(groups) == 0 && note == "" {
		note = "Rotate contains no call with a literal table list"
	}
	return groups, note
}

// ---------------------------------------------------------------------------------------------------------------
// observation

// settingsTouch describes a statement that reads or writes one marker of the settings table.
type settingsTouch struct {
	fp       string
	write    bool
	nonEmpty bool // a write of a non-empty value
}

func touchOf(e *fakeconn.Entry) (settingsTouch, bool) {
	if e.Stmt == nil || e.Target != "settings" {
		return settingsTouch{}, false
	}
	switch e.Stmt.Kind {
	case "select":
		if fp, ok := e.Stmt.WhereEq("fingerprint"); ok {
			return settingsTouch{fp: fp}, true
		}
	case "insert":
		fp, ok := e.Stmt.InsertValue("fingerprint")
		v, _ := e.Stmt.InsertValue("value")
		if ok {
			return settingsTouch{fp: fp.Text, write: true, nonEmpty: v.Text != ""}, true
		}
	}
	return settingsTouch{}, false
}

// alterKind: "ttl" for MODIFY TTL, "policy" for MODIFY SETTING storage_policy, "aux" for anything else.
func alterKind(st *fakeconn.Stmt) string {
	for _, c := range st.Cmds {
		if c.Op == "MODIFY_TTL" {
			return "ttl"
		}
		for _, kv := range c.Settings {
			if kv[0] == "storage_policy" {
				return "policy"
			}
		}
	}
	return "aux"
}

// owners attributes every ALTER of a log to the marker fingerprint whose statements enclose it: the settings
// statement before and the one after the ALTER run usually touch the same marker (read/clear … write); when they do
// not, a neighbouring *write of a value* wins (marker written first, or lookups hoisted), else the one before.
// Nothing here depends on how many statements a run issues or on their indices.
func owners(log []*fakeconn.Entry) map[int]string {
	out := map[int]string{}
	type seg struct {
		alters     []int
		prev, next *settingsTouch
	}
	var segs []*seg
	var cur *seg
	var last *settingsTouch
	for i, e := range log {
		if e.Stmt == nil {
			continue
		}
		if t, ok := touchOf(e); ok {
			tt := t
			if cur != nil {
				cur.next = &tt
				cur = nil
			}
			last = &tt
			continue
		}
		if e.Stmt.Kind == "alter" {
			if cur == nil {
				cur = &seg{prev: last}
				segs = append(segs, cur)
			}
			cur.alters = append(cur.alters, i)
		}
	}
	for _, s := range segs {
		fp := ""
		switch {
		case s.prev != nil && s.next != nil && s.prev.fp == s.next.fp:
			fp = s.prev.fp
		case s.prev != nil && s.prev.write && s.prev.nonEmpty:
			fp = s.prev.fp
		case s.next != nil && s.next.write && s.next.nonEmpty:
			fp = s.next.fp
		case s.prev != nil:
			fp = s.prev.fp
		case s.next != nil:
			fp = s.next.fp
		}
		for _, i := range s.alters {
			out[i] = fp
		}
	}
	return out
}

type gkey struct{ name, kind string }

type membership struct {
	members  map[gkey][]string // (marker name, kind) → tables the marker vouches for
	observed map[gkey][]string
	fromAST  map[string][]astGroup // marker name → calls that mention it
	rotated  map[string]bool       // tables any source says are rotated
	astNote  string
}

func uniqSorted(in []string) []string {
	m := map[string]bool{}
	for _, s := range in {
		m[s] = true
	}
	out := make([]string, 0, len(m))
	for s := range m {
		out = append(out, s)
	}
	sort.Strings(out)
	return out
}

func overlap(a, b []string) int {
	n := 0
	for _, x := range a {
		for _, y := range b {
			if x == y {
				n++
			}
		}
	}
	return n
}

// buildMembership combines the reference log with the call arguments of Rotate.
func buildMembership(log []*fakeconn.Entry) *membership {
	m := &membership{members: map[gkey][]string{}, observed: map[gkey][]string{}, fromAST: map[string][]astGroup{}, rotated: map[string]bool{}}
	names := map[string]string{} // fingerprint → marker name
	for _, e := range log {
		if t, ok := touchOf(e); ok && t.write {
			if n, ok := e.Stmt.InsertValue("name"); ok {
				names[t.fp] = n.Text
			}
		}
	}
	own := owners(log)
	for i, e := range log {
		if e.Stmt == nil || e.Stmt.Kind != "alter" {
			continue
		}
		m.rotated[e.Target] = true
		k := alterKind(e.Stmt)
		if k == "aux" {
			continue
		}
		if n, ok := names[own[i]]; ok {
			key := gkey{n, k}
			m.observed[key] = append(m.observed[key], e.Target)
		}
	}
	groups, note := parseRotateCalls()
	m.astNote = note
	for _, g := range groups {
		for _, n := range g.Names {
			m.fromAST[n] = append(m.fromAST[n], g)
		}
		for _, t := range g.Tables {
			m.rotated[t] = true
		}
	}
	keys := map[gkey]bool{}
	for k := range m.observed {
		m.observed[k] = uniqSorted(m.observed[k])
		keys[k] = true
	}
	for k := range keys {
		tabs := append([]string(nil), m.observed[k]...)
		// the call(s) of Rotate that mention this marker name: the one(s) overlapping most with the observation
		best, bestN := []astGroup(nil), -1
		for _, g := range m.fromAST[k.name] {
			switch n := overlap(g.Tables, m.observed[k]); {
			case n > bestN:
				best, bestN = []astGroup{g}, n
			case n == bestN:
				best = append(best, g)
			}
		}
		if bestN > 0 {
			for _, g := range best {
				tabs = append(tabs, g.Tables...)
			}
		}
		m.members[k] = uniqSorted(tabs)
	}
	return m
}

// shared reports whether one marker name serves more than one group (two calls of Rotate name it, or both a TTL and a
// storage-policy group were observed under it).
func (m *membership) shared(name string) bool {
	if len(m.fromAST[name]) > 1 {
		return true
	}
	_, a := m.observed[gkey{name, "ttl"}]
	_, b := m.observed[gkey{name, "policy"}]
	return a && b
}

// describe renders the membership for the evidence file.
func (m *membership) describe() []string {
	var out []string
	var keys []gkey
	for k := range m.members {
		keys = append(keys, k)
	}
	sort.Slice(keys, func(i, j int) bool {
		if keys[i].name != keys[j].name {
			return keys[i].name < keys[j].name
		}
		return keys[i].kind < keys[j].kind
	})
	for _, k := range keys {
		var astTabs []string
		for _, g := range m.fromAST[k.name] {
			astTabs = append(astTabs, g.Callee+"("+strings.Join(g.Tables, ",")+")")
		}
		agree := "source=observation only"
		if len(astTabs) > 0 {
			agree = "call arguments: " + strings.Join(astTabs, " ") + "; agree=" + strconv.FormatBool(strings.Join(m.members[k], ",") == strings.Join(m.observed[k], ","))
		}
		out = append(out, k.name+"/"+k.kind+" observed["+strings.Join(m.observed[k], ",")+"] "+agree)
	}
	return out
}
