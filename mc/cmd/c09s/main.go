// C09 (schedules): the result of the in-process LogQL engine does not depend on the interleaving of its stage
// goroutines.  The real internal_planner chain (instrumented through the build overlay) runs under the controlled
// scheduler (engine E1) over a scripted upstream for every batching of the entry sequence into channel messages;
// on every explored schedule the output must equal the output of the default (deviation-free) schedule.
// This is the "schedules" quantifier of C09; the "programs x inputs" part is mc/cmd/c09.
package main

import (
	"context"
	"fmt"
	"io"
	"os"
	"runtime"
	"sort"
	"strings"
	"time"

	"github.com/metrico/qryn/reader/logql/logql_parser"
	"github.com/metrico/qryn/reader/logql/logql_transpiler_v2/internal_planner"
	"github.com/metrico/qryn/reader/logql/logql_transpiler_v2/shared"
	"github.com/metrico/qryn/reader/utils/logger"

	"verif/mc/ev"
	"verif/mc/sched"
	"verif/mc/sched/vctx"
)

type ent struct {
	fp     uint64
	labels map[string]string
	ts     int64
	line   string
}

type upstream struct{ msgs [][]shared.LogEntry }

func (u *upstream) IsMatrix() bool { return false }
func (u *upstream) Process(ctx *shared.PlannerContext, _ chan []shared.LogEntry) (chan []shared.LogEntry, error) {
	out := sched.MakeChan[[]shared.LogEntry](0)
	sched.GoNamed("upstream", false, func() {
		for _, m := range u.msgs {
			cp := make([]shared.LogEntry, len(m))
			for i, e := range m {
				cp[i] = e
				if e.Labels != nil {
					cp[i].Labels = map[string]string{}
					for k, v := range e.Labels {
						cp[i].Labels[k] = v
					}
				}
			}
			sched.Send(out, cp)
		}
		sched.Close(out)
	})
	return out, nil
}

type cfg struct {
	Query string
	Cuts  []int // message boundaries inside the entry sequence (the EOF marker is the last entry)
	Limit int64
}

func (c cfg) Name() string { return fmt.Sprintf("%s|cuts%v|limit%d", c.Query, c.Cuts, c.Limit) }

type scenario struct {
	c      cfg
	script *logql_parser.LogQLScript
	ref    string
	hasRef bool
}

func (s *scenario) Name() string { return s.c.Name() }

var lines = []string{`{"x":"1","lvl":"e"}`, `k=v x=2`, `{"x":"3","n":{"y":"z"}}`, `not json`, `{"x":"1","lvl":"w"}`}

func entries() []shared.LogEntry {
	base := int64(1700000000) * 1e9
	var es []shared.LogEntry
	for i := 0; i < 5; i++ {
		ser := i / 3
		es = append(es, shared.LogEntry{Fingerprint: uint64(10 + ser), Labels: map[string]string{"a": "b", "s": fmt.Sprint(ser)},
			Message: lines[i%len(lines)], TimestampNS: base + int64(i)*2e9, Value: float64(i + 1)})
	}
	es = append(es, shared.LogEntry{Err: io.EOF})
	return es
}

func (s *scenario) run() (string, error) {
	if s.script == nil {
		sc, err := logql_parser.Parse(s.c.Query)
		if err != nil {
			return "", err
		}
		s.script = sc
	}
	es := entries()
	var msgs [][]shared.LogEntry
	prev := 0
	for _, c := range append(append([]int{}, s.c.Cuts...), len(es)) {
		msgs = append(msgs, es[prev:c])
		prev = c
	}
	chain, err := internal_planner.Plan(s.script, &upstream{msgs})
	if err != nil {
		return "plan-error: " + err.Error(), nil
	}
	ctx, cancel := vctx.WithCancel(context.Background())
	pctx := &shared.PlannerContext{From: time.Unix(1700000000, 0), To: time.Unix(1700000012, 0), Limit: s.c.Limit,
		Ctx: ctx, CancelCtx: cancel, CHFinalize: true, Step: 5 * time.Second}
	out, err := chain.Process(pctx, nil)
	if err != nil {
		return "process-error: " + err.Error(), nil
	}
	// the order of entries of different series in the output depends on Go map iteration inside the engine
	// (regrouping by fingerprint), not on the schedule: the observation is the multiset of entries
	var items []string
	var sb strings.Builder
	for batch := range sched.RangeChan(out) {
		for _, e := range batch {
			if e.Err == io.EOF {
				continue
			}
			if e.Err != nil {
				items = append(items, fmt.Sprintf("ERR(%v);", e.Err))
				continue
			}
			sb.Reset()
			keys := make([]string, 0, len(e.Labels))
			for k := range e.Labels {
				keys = append(keys, k)
			}
			sort.Strings(keys)
			fmt.Fprintf(&sb, "fp%d{", e.Fingerprint)
			for _, k := range keys {
				fmt.Fprintf(&sb, "%s=%q,", k, e.Labels[k])
			}
			fmt.Fprintf(&sb, "}@%d:%q/%g;", e.TimestampNS, e.Message, e.Value)
			items = append(items, sb.String())
		}
	}
	sort.Strings(items)
	return strings.Join(items, ""), nil
}

func (s *scenario) Run() any {
	o, err := s.run()
	if err != nil {
		panic(sched.HarnessError{Msg: "c09s: " + err.Error()})
	}
	return &o
}

func (s *scenario) Check(x any, res *sched.Result) (string, []sched.Finding) {
	if !s.hasRef {
		// reference = the same chain under the default deterministic schedule (no deviation), computed once per
		// process.  (Not a free-running run: its goroutines would outlive it and call the shims of the next
		// controlled execution.)
		var r string
		var err error
		rr := sched.Run(sched.Options{NoYields: true, Horizon: 20000}, func() { r, err = s.run() })
		if err != nil {
			panic(sched.HarnessError{Msg: fmt.Sprintf("c09s reference run failed: %v", err)})
		}
		if rr.Failure != "" {
			r = "FAILED: " + rr.Failure // reported below for the explored schedules as well (same failure on every schedule)
		}
		s.ref, s.hasRef = r, true
	}
	var fs []sched.Finding
	got := ""
	if p, ok := x.(*string); ok && p != nil {
		got = *p
	}
	switch {
	case res.Failure != "":
		cls := "chain_" + res.Failure
		if strings.HasPrefix(res.Failure, "panic") {
			parts := strings.SplitN(res.Failure, ": ", 2)
			cls = "chain_panic:" + strings.ReplaceAll(parts[len(parts)-1], " ", "_")
		}
		fs = append(fs, sched.Finding{Class: cls, What: fmt.Sprintf("%s; unfinished=%v", res.Failure, res.Unfinished)})
	case got != s.ref:
		fs = append(fs, sched.Finding{Class: "result_depends_on_schedule", What: fmt.Sprintf("schedule gives %.300q, default schedule gives %.300q", got, s.ref)})
	}
	h := fmt.Sprintf("%s => %d bytes", s.Name(), len(got))
	return h, fs
}

func compositions(n int) [][]int {
	// all ways to cut a sequence of n entries into consecutive messages, restricted to at most 2 cuts
	out := [][]int{{}}
	for a := 0; a <= n; a++ {
		out = append(out, []int{a})
		for b := a; b <= n; b++ {
			out = append(out, []int{a, b})
		}
	}
	return out
}

func scenarios(thorough bool) []sched.Scenario {
	queries := []string{
		`{a="b"} | json | x="1"`,
		`{a="b"} | logfmt | drop k`,
		`{a="b"} | json | line_format "{{.x}}" | label_format y="c"`,
		`sum by (s) (count_over_time({a="b"} | json [5s]))`,
		`max_over_time({a="b"} | json | unwrap x [5s]) by (lvl)`,
		`count_over_time({a="b"} | logfmt | x="2" [5s]) > 0`,
	}
	var out []sched.Scenario
	n := 6
	for _, q := range queries {
		cs := compositions(n)
		for i, c := range cs {
			if !thorough && i%4 != 0 {
				continue // quick: every 4th batching (deterministic subset); thorough: all
			}
			for _, lim := range []int64{2, 100} {
				out = append(out, &scenario{c: cfg{Query: q, Cuts: c, Limit: lim}})
			}
		}
	}
	return out
}

var all []sched.Scenario

func lookup(n string) sched.Scenario {
	for _, s := range all {
		if s.Name() == n {
			return s
		}
	}
	return nil
}

func main() {
	logger.Logger.SetOutput(io.Discard)
	all = scenarios(true)
	if sched.IsWorker() {
		sched.WorkerMain(lookup)
		return
	}
	r := ev.StartPart("C09", os.Getenv("VERIF_PART"), "model_checking", 40*time.Second, 10*time.Minute)
	r.Rule = "C09s: stateless DFS (engine E1, delay-bounded) over the interleavings of the stage goroutines of the real internal_planner chain, per (pipeline x batching of 5 entries + EOF marker into <= 3 messages x limit); oracle: output equals the output of the deviation-free schedule of the same chain"
	if r.Replay != "" {
		replay(r)
		return
	}
	scs := all
	if !r.Thorough() {
		scs = scenarios(false)
	}
	b := sched.Bounds{Preempt: 2, Faults: 0, Horizon: 20000, NoYields: true}
	t0 := time.Now()
	st, ex, left := sched.Explore(scs, b, runtime.NumCPU(), r.Deadline, 20)
	fmt.Printf("[C09s] scenarios=%d executions=%d outcomes=%d completed=%v left=%d %.1fs\n", len(scs), st.Executions, len(st.Outcomes), ex, left, time.Since(t0).Seconds())
	if !ex {
		r.Cap(fmt.Sprintf("C09s cut by the deadline (%d subtrees unexplored)", left))
	}
	if st.Diverged > 0 || st.Unreproducible > 0 {
		r.Cap(fmt.Sprintf("%d executions diverged from their prefix and %d findings did not reproduce (uncaptured nondeterminism; nothing was concluded from them): %v", st.Diverged, st.Unreproducible, st.Notes))
	}
	r.Extra["c09s_diverged_executions"], r.Extra["c09s_unreproducible_findings"] = st.Diverged, st.Unreproducible
	r.AddEval(st.Executions)
	r.States += st.Points
	r.Transitions += st.Steps
	r.TracesValidated += st.Executions
	for k := range st.Outcomes {
		r.Distinct("c09s:" + k)
	}
	r.Extra["c09s"] = map[string]any{"scenarios": len(scs), "bounds": b, "executions": st.Executions, "completed": ex,
		"outcomes_per_scenario_must_be_1": len(st.Outcomes) == len(scs)}
	r.Sample(map[string]any{"c09s_scenario": scs[1].Name()})
	if ex && len(st.Violations) == 0 && len(st.Outcomes) != len(scs) {
		r.Violate("result_depends_on_schedule", fmt.Sprintf("%d scenarios produced %d distinct outcomes", len(scs), len(st.Outcomes)), nil)
	}
	for _, v := range st.Violations {
		r.Violate(v.Class, v.Scn+": "+v.What, v)
	}
	r.Finish()
}

func replay(r *ev.Run) {
	rp, res, outcome, fs, err := sched.ReplayFile(r.Replay, lookup)
	if err != nil {
		ev.Fatal("replay: %v", err)
	}
	fmt.Println(strings.Join(res.Trace, "\n"))
	fmt.Println("outcome:", outcome, "failure:", res.Failure)
	r.AddEval(1)
	r.States, r.Transitions, r.TracesValidated = int64(len(res.Points)), int64(res.Steps), 1
	for _, f := range fs {
		r.Violate(f.Class, f.What, rp)
	}
	r.Finish()
}
