# instrument the in-process LogQL engine for engine E1 (C09 schedule independence); sourced by bin/check
go build -modfile="$scratch/mod/go.mod" -o "$scratch/bin/rewrite" ./mc/rewrite || return 1
files=$(cd "$VERIF_REPO" && ls reader/logql/logql_transpiler_v2/internal_planner/*.go | grep -v _test.go)
"$scratch/bin/rewrite" -repo "$VERIF_REPO" -out "$scratch/inst" -overlay "$scratch/overlay.json" $files \
   2>"$scratch/rewrite.log" || { cat "$scratch/rewrite.log" >&2; return 1; }
