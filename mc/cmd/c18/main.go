// C18 — Schema initialisation survives failure at any statement and can simply be re-run.
//
// Crash-point model checking of the real database initialisation (ctrl.Init → maintenance.InitDB/UpgradeAll →
// maintenance.Update) over verif/mc/fakeconn: explicit-state BFS over (catalogue, ver rows, completed scripts)
// where every transition is one real run of ctrl.Init with at most one injected fault.  See NOTES.md.
package main

import (
	"encoding/json"
	"errors"
	"fmt"
	"os"
	"regexp"
	"runtime"
	"runtime/debug"
	"runtime/pprof"
	"sort"
	"strconv"
	"strings"
	"sync"
	"time"

	qsql "github.com/metrico/qryn/ctrl/qryn/sql"

	"verif/mc/ev"
	"verif/mc/fakeconn"
	"verif/mc/fakeconn/ctrlrun"
)

const dbName = "qryn_db"

// ---------------------------------------------------------------------------------------------------------------
// reference model of the migration streams (transcribed from update.go Update / maintain.go upgradeDB and the
// header of log.sql): which stream key k belongs to which file, which streams run in which mode, and how a file
// is cut into scripts.

type stream struct {
	K       int
	File    string
	Dist    bool
	Scripts []script
}

type script struct {
	Raw  string
	Toks []ttok // token pattern of the script: matches its templated text whatever the template values are
}

// ttok is one element of a script's token pattern.
type ttok struct {
	wild bool           // a whole placeholder: any (short) run of tokens, also none
	kind string         // token kind otherwise
	val  string         // exact value, or
	re   *regexp.Regexp // value pattern when a placeholder sits inside a string literal / identifier
}

const sentinel = "ZZPLACEHOLDERZZ"

var placeholder = regexp.MustCompile(`\{\{\.\w+\}\}`)

// splitScripts: "##" lines are comments; a script ends at a ';' that is followed by an empty line (or by the
// end of the file).  Written independently of getSQLFile.
func splitScripts(text string) []string {
	var out []string
	var cur []string
	flush := func() {
		s := strings.TrimSpace(strings.Join(cur, "\n"))
		s = strings.TrimSpace(strings.TrimSuffix(s, ";"))
		if s != "" {
			out = append(out, s)
		}
		cur = nil
	}
	lines := strings.Split(text, "\n")
	for i, l := range lines {
		if strings.HasPrefix(l, "##") {
			l = ""
		}
		if strings.TrimSpace(l) == "" {
			l = ""
		}
		cur = append(cur, l)
		if strings.HasSuffix(l, ";") {
			nextEmpty := i+1 >= len(lines) || strings.TrimSpace(lines[i+1]) == "" || strings.HasPrefix(lines[i+1], "##")
			if nextEmpty {
				flush()
			}
		}
	}
	flush()
	return out
}

// mkStream cuts a file into scripts and turns every script into a token pattern: the template placeholders are
// replaced by a sentinel word before tokenising, so a placeholder that stands alone becomes a wildcard for a run of
// tokens ({{.OnCluster}} → ON CLUSTER `c`, or nothing) and one inside a literal ('{{.DB}}') a wildcard inside it.
// Executed statements are compared token by token — layout, comments and a trailing ';' do not matter.
func mkStream(k int, file, text string, dist bool) *stream {
	st := &stream{K: k, File: file, Dist: dist}
	for _, raw := range splitScripts(text) {
		toks, err := fakeconn.Tokens(placeholder.ReplaceAllString(raw, sentinel))
		if err != nil {
			ev.Fatal("%s: cannot tokenise script %q: %v", file, raw, err)
		}
		sc := script{Raw: raw}
		for _, t := range toks {
			switch {
			case t.Kind == "ident" && t.Val == sentinel:
				sc.Toks = append(sc.Toks, ttok{wild: true})
			case strings.Contains(t.Val, sentinel):
				parts := strings.Split(t.Val, sentinel)
				for i := range parts {
					parts[i] = regexp.QuoteMeta(parts[i])
				}
				sc.Toks = append(sc.Toks, ttok{kind: t.Kind, re: regexp.MustCompile("^" + strings.Join(parts, ".*") + "$")})
			default:
				sc.Toks = append(sc.Toks, ttok{kind: t.Kind, val: t.Val})
			}
		}
		st.Scripts = append(st.Scripts, sc)
	}
	return st
}

const maxWild = 24 // tokens one placeholder may stand for

// matchToks: does the executed token sequence fit the pattern?
func matchToks(pat []ttok, toks []fakeconn.Tok) bool {
	memo := map[[2]int]bool{}
	var rec func(i, j int) bool
	rec = func(i, j int) bool {
		if i == len(pat) {
			return j == len(toks)
		}
		k := [2]int{i, j}
		if v, ok := memo[k]; ok {
			return v
		}
		res := false
		p := pat[i]
		if p.wild {
			for n := 0; n <= maxWild && j+n <= len(toks) && !res; n++ {
				res = rec(i+1, j+n)
			}
		} else if j < len(toks) {
			t := toks[j]
			// a placeholder may render an identifier quoted or bare; everything else must be the same token
			sameKind := t.Kind == p.kind || (p.re != nil && (t.Kind == "ident" || t.Kind == "qident") && (p.kind == "ident" || p.kind == "qident"))
			if sameKind && ((p.re == nil && t.Val == p.val) || (p.re != nil && p.re.MatchString(t.Val))) {
				res = rec(i+1, j+1)
			}
		}
		memo[k] = res
		return res
	}
	return rec(0, 0)
}

var streams = map[int]*stream{
	1: mkStream(1, "log.sql", qsql.LogScript, false),
	2: mkStream(2, "traces.sql", qsql.TracesScript, false),
	3: mkStream(3, "log_dist.sql", qsql.LogDistScript, true),
	4: mkStream(4, "traces_dist.sql", qsql.TracesDistScript, true),
	5: mkStream(5, "profiles.sql", qsql.ProfilesScript, false),
	6: mkStream(6, "profiles_dist.sql", qsql.ProfilesDistScript, true),
}

var candCache sync.Map // "<k>\x00<sql>" -> []int

// candidates: indices of the scripts of the stream whose template matches the executed text.
func candidates(s *stream, sql string) []int {
	ck := strconv.Itoa(s.K) + "\x00" + sql
	if v, ok := candCache.Load(ck); ok {
		return v.([]int)
	}
	var cand []int
	if toks, err := fakeconn.Tokens(sql); err == nil {
		for j := range s.Scripts {
			if matchToks(s.Scripts[j].Toks, toks) {
				cand = append(cand, j)
			}
		}
	}
	candCache.Store(ck, cand)
	return cand
}

func expectedStreams(c ctrlrun.Config) []int {
	if c.Cluster != "" {
		return []int{1, 2, 3, 4, 5, 6}
	}
	return []int{1, 2, 5}
}

// ---------------------------------------------------------------------------------------------------------------
// explored state

type completed [7][]bool

func newCompleted() *completed {
	var c completed
	for k, s := range streams {
		c[k] = make([]bool, len(s.Scripts))
	}
	return &c
}

func (c *completed) clone() *completed {
	var d completed
	for k := range c {
		d[k] = append([]bool(nil), c[k]...)
	}
	return &d
}

func (c *completed) String() string {
	var b strings.Builder
	for k := 1; k <= 6; k++ {
		for _, x := range c[k] {
			if x {
				b.WriteByte('1')
			} else {
				b.WriteByte('0')
			}
		}
		b.WriteByte('/')
	}
	return b.String()
}

type node struct {
	id     int
	st     *fakeconn.State
	done   *completed
	parent int
	plan   []fakeconn.Fault // plan of the run that led here from parent (nil = fault-free)
	faults int              // number of faulted runs on the path
	n      int              // statements of the fault-free run from here
	stuck  bool
}

type skey struct {
	fp   [2]uint64
	done string
}

func key(st *fakeconn.State, done *completed) skey { return skey{st.Fingerprint(), done.String()} }

// finding is an oracle verdict produced while evaluating one run.
type finding struct {
	Class string
	What  string
}

type runResult struct {
	st       *fakeconn.State
	done     *completed
	proc     *fakeconn.Proc
	err      error
	panicked bool
	scripts  int // script executions attempted
	findings []finding
	failing  *fakeconn.Entry // first statement that failed by itself (not injected)
	failDone bool            // the failing script had been completed before this run
	failK    int
	failJ    int
}

func isInjected(err error) bool {
	var ie *fakeconn.InjectedError
	return errors.As(err, &ie)
}

// The `ver` table is the on-disk state of the updater ("highest applied script index per stream k"); statements are
// classified by what they do to it, not by their text:

// verTableDDL: creation of `ver` itself or of a Distributed table over it.
func verTableDDL(e *fakeconn.Entry) bool {
	st := e.Stmt
	if st == nil || st.Kind != "create_table" {
		return false
	}
	return st.Name.Name == "ver" || (st.Engine == "Distributed" && len(st.EngineArgs) >= 3 && st.EngineArgs[2] == "ver")
}

// versionLookup: a SELECT that reads `ver` (directly or through a Distributed table) for one stream k.
func versionLookup(e *fakeconn.Entry) (int, bool) {
	if e.Stmt == nil || e.Stmt.Kind != "select" || e.Target != "ver" {
		return 0, false
	}
	if v, ok := e.Stmt.WhereEq("k"); ok {
		k, err := strconv.Atoi(v)
		return k, err == nil
	}
	return 0, false
}

// versionWrite: an INSERT of a row (k, ver) into `ver`.
func versionWrite(e *fakeconn.Entry) (k, n int, ok bool) {
	if e.Stmt == nil || e.Stmt.Kind != "insert" || e.Target != "ver" {
		return 0, 0, false
	}
	kv, ok1 := e.Stmt.InsertValue("k")
	nv, ok2 := e.Stmt.InsertValue("ver")
	k, err1 := strconv.Atoi(kv.Text)
	n, err2 := strconv.Atoi(nv.Text)
	return k, n, ok1 && ok2 && err1 == nil && err2 == nil
}

// bookkeeping statements (database creation, reads, the `ver` table) are not migration scripts
func bookkeeping(e *fakeconn.Entry) bool {
	if e.Stmt == nil {
		return false
	}
	if e.Stmt.IsRead() || e.Stmt.Kind == "create_database" || verTableDDL(e) {
		return true
	}
	return e.Stmt.Kind == "insert" && e.Target == "ver"
}

// attribute finds the stream and the candidate script indices of an executed statement: the stream whose version was
// looked up last if one of its scripts matches, else the only stream that has a matching script.
func attribute(curK int, sql string) (int, []int) {
	if s := streams[curK]; s != nil {
		if c := candidates(s, sql); len(c) > 0 {
			return curK, c
		}
	}
	found, k := []int(nil), 0
	for kk := 1; kk <= 6; kk++ {
		if c := candidates(streams[kk], sql); len(c) > 0 {
			if found != nil {
				return 0, nil // ambiguous between streams: not attributable
			}
			found, k = c, kk
		}
	}
	return k, found
}

// execute runs ctrl.Init once on a copy of (st, done) with the given faults and evaluates the per-run oracle.
func execute(cfg ctrlrun.Config, st0 *fakeconn.State, done0 *completed, plan []fakeconn.Fault) *runResult {
	st := st0.Clone()
	done := done0.clone()
	proc := fakeconn.NewProc(st, plan...)
	err, panicked := ctrlrun.Init(proc, cfg)
	r := &runResult{st: st, done: done, proc: proc, err: err, panicked: panicked, failK: -1, failJ: -1}
	if proc.HarnessErr != nil {
		ev.Fatal("fake connection: %v", proc.HarnessErr)
	}
	if panicked && !isInjected(err) {
		var ce *fakeconn.CHError
		if !errors.As(err, &ce) {
			r.findings = append(r.findings, finding{"panic_in_init", fmt.Sprintf("ctrl.Init panicked: %v", err)})
		}
	}
	curK := 0
	for _, e := range proc.Log {
		if e.Stmt == nil {
			continue
		}
		if k, ok := versionLookup(e); ok {
			curK = k
			continue
		}
		if e.IsQuery {
			continue
		}
		if k, n, ok := versionWrite(e); ok && e.Applied {
			s := streams[k]
			if s == nil || n > len(s.Scripts) {
				r.findings = append(r.findings, finding{fmt.Sprintf("version_recorded_for_unknown_script:k%d", k),
					fmt.Sprintf("ver row (%d,%d) written but stream %d has no script %d", k, n, k, n)})
				continue
			}
			for i := 0; i < n; i++ {
				if !done[k][i] {
					r.findings = append(r.findings, finding{fmt.Sprintf("version_recorded_for_incomplete_script:%s", s.File),
						fmt.Sprintf("ver row (k=%d, ver=%d) written at statement %d although script #%d of %s never completed", k, n, e.Index, i, s.File)})
					break
				}
			}
			continue
		}
		if bookkeeping(e) {
			continue
		}
		// a migration script is being executed
		sk, cand := attribute(curK, e.SQL)
		if len(cand) == 0 {
			continue // not a script of any stream (e.g. Cleanup statements): not attributable
		}
		s := streams[sk]
		curK := sk
		r.scripts++
		j := cand[len(cand)-1]
		for _, c := range cand { // identical texts: the first not yet completed one, else the last
			if !done[curK][c] {
				j = c
				break
			}
		}
		for i := 0; i < j; i++ {
			if !done[curK][i] {
				r.findings = append(r.findings, finding{fmt.Sprintf("script_skipped:%s:%d", s.File, i),
					fmt.Sprintf("script #%d of %s executed (statement %d) although script #%d never completed", j, s.File, e.Index, i)})
				break
			}
		}
		if e.Err != nil && !isInjected(e.Err) && r.failing == nil {
			r.failing, r.failK, r.failJ, r.failDone = e, curK, j, done[curK][j]
		}
		if e.Applied {
			done[curK][j] = true
		}
	}
	if r.failing == nil {
		for _, e := range proc.Log {
			if e.Err != nil && !isInjected(e.Err) {
				r.failing = e
				break
			}
		}
	}
	return r
}

// successOracle: what must hold after ctrl.Init returned nil.
func successOracle(cfg ctrlrun.Config, r *runResult, final *fakeconn.State) []finding {
	var out []finding
	for _, k := range expectedStreams(cfg) {
		for i, d := range r.done[k] {
			if !d {
				out = append(out, finding{fmt.Sprintf("success_but_script_not_completed:%s:%d", streams[k].File, i),
					fmt.Sprintf("initialisation returned nil but script #%d of %s never completed", i, streams[k].File)})
				break
			}
		}
	}
	if final != nil {
		if d := fakeconn.DiffSchema(final, r.st); d != "" {
			out = append(out, finding{"final_schema_differs:" + strings.SplitN(d, ":", 2)[0],
				"schema after interrupted+restarted initialisation differs from the uninterrupted one: " + d})
		}
	}
	return out
}

func classifyRestartFailure(r *runResult) finding {
	e := r.failing
	if e == nil {
		return finding{"restart_fails:unknown", fmt.Sprintf("fault-free restart returned %v", r.err)}
	}
	kind, name, table := "?", "error", ""
	if e.Stmt != nil {
		kind, table = e.Stmt.Kind, e.Stmt.Name.Name
	}
	var ce *fakeconn.CHError
	if errors.As(e.Err, &ce) {
		name = ce.Name
	}
	first := strings.SplitN(strings.TrimSpace(e.SQL), "\n", 2)[0]
	what := fmt.Sprintf("fault-free restart fails at statement %d (%s): %v", e.Index, first, e.Err)
	if r.failK > 0 {
		what += fmt.Sprintf(" [script #%d of %s, completed before this run: %v]", r.failJ, streams[r.failK].File, r.failDone)
	}
	switch {
	case kind == "rename" && name == "UNKNOWN_TABLE" && r.failDone:
		return finding{"rename_not_idempotent:" + table, what}
	case kind == "alter" && name == "DUPLICATE_COLUMN" && r.failDone:
		return finding{"add_column_not_idempotent:" + table, what}
	}
	return finding{fmt.Sprintf("restart_fails:%s:%s:%s", kind, name, table), what}
}

// ---------------------------------------------------------------------------------------------------------------

type replayDoc struct {
	Config ctrlrun.Config     `json:"config"`
	Runs   [][]fakeconn.Fault `json:"runs"` // fault plan of each consecutive run from the empty database; [] = fault-free
}

func configs(thorough bool) []ctrlrun.Config {
	// order: the two extremes first, so that a run cut short by its deadline has covered them
	base := []ctrlrun.Config{
		{Name: "clustered+replicated", DB: dbName, TTLDays: 7, Cluster: "c1", Cloud: true},
		{Name: "single", DB: dbName, TTLDays: 7},
		{Name: "replicated", DB: dbName, TTLDays: 7, Cloud: true},
		{Name: "clustered", DB: dbName, TTLDays: 7, Cluster: "c1"},
	}
	if !thorough {
		return base
	}
	out := append([]ctrlrun.Config{}, base...)
	for _, c := range base {
		c.Name += "+policy+ordering+skip"
		c.StoragePolicy, c.SamplesOrdering, c.SkipUnavailableShards, c.TTLDays = "p1", "fingerprint, timestamp_ns", true, 30
		out = append(out, c)
	}
	return out
}

var positions = []fakeconn.Pos{fakeconn.ErrBefore, fakeconn.ErrAfter, fakeconn.KillAfter}

type explorer struct {
	r        *ev.Run
	cfg      ctrlrun.Config
	nodes    []*node
	index    map[skey]int
	final    *fakeconn.State
	maxFault int
	workers  int
	mu       sync.Mutex
	kinds    map[string]int64 // fault points by statement kind
}

func (x *explorer) path(id int) [][]fakeconn.Fault {
	var rev [][]fakeconn.Fault
	for id > 0 {
		n := x.nodes[id]
		p := n.plan
		if p == nil {
			p = []fakeconn.Fault{}
		}
		rev = append(rev, p)
		id = n.parent
	}
	out := make([][]fakeconn.Fault, 0, len(rev)+1)
	for i := len(rev) - 1; i >= 0; i-- {
		out = append(out, rev[i])
	}
	return out
}

func (x *explorer) report(id int, extra []fakeconn.Fault, hasExtra bool, f finding) {
	runs := x.path(id)
	if hasExtra {
		if extra == nil {
			extra = []fakeconn.Fault{}
		}
		runs = append(runs, extra)
	}
	var desc []string
	for _, p := range runs {
		if len(p) == 0 {
			desc = append(desc, "run")
		} else {
			desc = append(desc, fmt.Sprintf("run[%s@%d]", p[0].Pos, p[0].Index))
		}
	}
	x.r.Violate(f.Class, fmt.Sprintf("mode=%s %s: %s", x.cfg.Name, strings.Join(desc, " → "), f.What),
		replayDoc{Config: x.cfg, Runs: runs})
}

func (x *explorer) add(st *fakeconn.State, done *completed, parent int, plan []fakeconn.Fault, faults int) (int, bool) {
	k := key(st, done)
	if id, ok := x.index[k]; ok {
		return id, false
	}
	n := &node{id: len(x.nodes), st: st, done: done, parent: parent, plan: plan, faults: faults}
	x.nodes = append(x.nodes, n)
	x.index[k] = n.id
	x.r.Distinct(fmt.Sprintf("%s/%x%x/%s", x.cfg.Name, k.fp[0], k.fp[1], k.done))
	return n.id, true
}

func stmtKind(e *fakeconn.Entry) string {
	if e.Stmt == nil {
		return "unparsed"
	}
	if _, _, ok := versionWrite(e); ok {
		return "version_insert"
	}
	if bookkeeping(e) {
		return "bookkeeping:" + e.Stmt.Kind
	}
	return "script:" + e.Stmt.Kind
}

// explore one configuration.
func (x *explorer) explore() {
	r := x.r
	empty := fakeconn.NewState(nil, []string{"c1"})
	// 1. the uninterrupted run defines the final schema and the statement log S
	clean := execute(x.cfg, empty, newCompleted(), nil)
	r.Transitions++
	r.TracesValidated++
	r.AddEval(1)
	if clean.err != nil {
		f := classifyRestartFailure(clean)
		f.Class = "clean_run_fails:" + f.Class
		r.Violate(f.Class, "mode="+x.cfg.Name+": uninterrupted initialisation of an empty server fails: "+f.What, replayDoc{x.cfg, [][]fakeconn.Fault{{}}})
		return
	}
	x.final = clean.st
	for _, f := range append(clean.findings, successOracle(x.cfg, clean, nil)...) {
		r.Violate(f.Class, "mode="+x.cfg.Name+" uninterrupted run: "+f.What, replayDoc{x.cfg, [][]fakeconn.Fault{{}}})
	}
	nScripts := 0
	for _, k := range expectedStreams(x.cfg) {
		nScripts += len(streams[k].Scripts)
	}
	if clean.scripts != nScripts {
		r.Violate("clean_run_script_count", fmt.Sprintf("mode=%s: uninterrupted run executed %d scripts, the files hold %d", x.cfg.Name, clean.scripts, nScripts),
			replayDoc{x.cfg, [][]fakeconn.Fault{{}}})
	}
	r.Sample(map[string]any{"mode": x.cfg.Name, "clean_run_statements": len(clean.proc.Log), "scripts": clean.scripts,
		"objects": len(clean.st.TableNames(dbName))})
	x.index = map[skey]int{}
	x.add(empty, newCompleted(), -1, nil, 0)
	frontier := []int{0}
	for len(frontier) > 0 {
		if r.Expired() {
			r.Extra["frontier_left_"+x.cfg.Name] = len(frontier)
			return
		}
		// phase A: fault-free run from every frontier state (the "restart")
		resA := make([]*runResult, len(frontier))
		x.parallel(len(frontier), func(i int) {
			n := x.nodes[frontier[i]]
			resA[i] = execute(x.cfg, n.st, n.done, nil)
		})
		type job struct {
			from int
			plan []fakeconn.Fault
		}
		var jobs []job
		var next []int
		for i, id := range frontier {
			n, ra := x.nodes[id], resA[i]
			r.Transitions++
			r.TracesValidated++
			r.AddEval(1)
			n.n = len(ra.proc.Log)
			for _, f := range ra.findings {
				x.report(id, nil, true, f)
			}
			if ra.err != nil {
				f := classifyRestartFailure(ra)
				same := key(ra.st, ra.done) == key(n.st, n.done)
				if same {
					n.stuck = true
					f.What += " — the state is unchanged by the failed run: every further start fails the same way (manual intervention needed)"
				}
				x.report(id, nil, true, f)
				r.Outcome("restart:" + f.Class)
				if !same {
					if nid, isNew := x.add(ra.st, ra.done, id, nil, n.faults); isNew {
						next = append(next, nid)
					}
				}
			} else {
				r.Outcome("restart:completes")
				for _, f := range successOracle(x.cfg, ra, x.final) {
					x.report(id, nil, true, f)
				}
				nid, isNew := x.add(ra.st, ra.done, id, nil, n.faults)
				if isNew {
					next = append(next, nid)
				}
				// a run on the now up-to-date database must execute no migration script
				up := execute(x.cfg, ra.st, ra.done, nil)
				r.Transitions++
				r.TracesValidated++
				r.AddEval(1)
				if up.err != nil {
					f := classifyRestartFailure(up)
					x.report(nid, nil, true, finding{"uptodate_run_fails:" + f.Class, f.What})
				} else if up.scripts != 0 {
					x.report(nid, nil, true, finding{"uptodate_run_executes_scripts", fmt.Sprintf("initialisation of an up-to-date database executed %d migration script(s)", up.scripts)})
				} else if up.st.Fingerprint() != ra.st.Fingerprint() {
					x.report(nid, nil, true, finding{"uptodate_run_changes_state", "initialisation of an up-to-date database changed the catalogue: " + fakeconn.DiffSchema(ra.st, up.st)})
				}
			}
			if n.stuck || n.faults >= x.maxFault {
				continue
			}
			for s := 0; s < n.n; s++ {
				x.kinds[stmtKind(ra.proc.Log[s])] += int64(len(positions))
				for _, pos := range positions {
					jobs = append(jobs, job{id, []fakeconn.Fault{{Index: s, Pos: pos}}})
				}
			}
		}
		// phase B: every single fault from every frontier state
		resB := make([]*runResult, len(jobs))
		x.parallel(len(jobs), func(i int) {
			if time.Now().After(r.Deadline) {
				return
			}
			n := x.nodes[jobs[i].from]
			rb := execute(x.cfg, n.st, n.done, jobs[i].plan)
			rb.proc, rb.failing = nil, nil // the statement log is not needed any more: keep the level small
			resB[i] = rb
		})
		for i, j := range jobs {
			rb := resB[i]
			if rb == nil {
				r.Cap("internal deadline reached")
				continue
			}
			r.Transitions++
			r.TracesValidated++
			r.AddEval(1)
			for _, f := range rb.findings {
				x.report(j.from, j.plan, true, f)
			}
			if rb.err == nil {
				// an injected error was swallowed: the run claims success, so the success oracle applies
				r.Outcome("faulted_run:returns_nil")
				for _, f := range successOracle(x.cfg, rb, x.final) {
					x.report(j.from, j.plan, true, f)
				}
			} else {
				r.Outcome("faulted_run:returns_error")
			}
			if nid, isNew := x.add(rb.st, rb.done, j.from, j.plan, x.nodes[j.from].faults+1); isNew {
				next = append(next, nid)
			}
		}
		frontier = next
	}
}

func (x *explorer) parallel(n int, f func(i int)) {
	var wg sync.WaitGroup
	ch := make(chan int, 256)
	for w := 0; w < x.workers; w++ {
		wg.Add(1)
		go func() {
			defer wg.Done()
			for i := range ch {
				f(i)
			}
		}()
	}
	for i := 0; i < n; i++ {
		ch <- i
	}
	close(ch)
	wg.Wait()
}

func replay(r *ev.Run) {
	b, err := os.ReadFile(r.Replay)
	if err != nil {
		ev.Fatal("replay: %v", err)
	}
	var doc struct {
		Replay replayDoc `json:"replay"`
	}
	if err := json.Unmarshal(b, &doc); err != nil {
		ev.Fatal("replay: %v", err)
	}
	cfg := doc.Replay.Config
	clean := execute(cfg, fakeconn.NewState(nil, []string{"c1"}), newCompleted(), nil)
	st, done := fakeconn.NewState(nil, []string{"c1"}), newCompleted()
	for i, plan := range doc.Replay.Runs {
		rr := execute(cfg, st, done, plan)
		fmt.Printf("run %d plan=%v: returned %v (panicked=%v), %d statements, %d script executions\n", i+1, plan, rr.err, rr.panicked, len(rr.proc.Log), rr.scripts)
		for _, e := range rr.proc.Log {
			if e.Err != nil {
				fmt.Printf("   stmt %d %s -> %v (applied=%v)\n", e.Index, strings.SplitN(strings.TrimSpace(e.SQL), "\n", 2)[0], e.Err, e.Applied)
			}
		}
		fs := rr.findings
		if rr.err == nil && clean.err == nil {
			fs = append(fs, successOracle(cfg, rr, clean.st)...)
		}
		if rr.err != nil && len(plan) == 0 {
			fs = append(fs, classifyRestartFailure(rr))
		}
		for _, f := range fs {
			r.Violate(f.Class, fmt.Sprintf("replay run %d: %s", i+1, f.What), doc.Replay)
		}
		st, done = rr.st, rr.done
	}
	r.AddEval(int64(len(doc.Replay.Runs)))
	r.Transitions = int64(len(doc.Replay.Runs))
	r.States = 1
	r.Finish()
}

func main() {
	r := ev.Start("C18", "model_checking", 75*time.Second, 15*time.Minute)
	r.Rule = "explicit-state BFS: a state is (canonical catalogue of the fake server incl. rows of ver/settings, set of completed migration scripts); " +
		"a transition is one real run of ctrl.Init (InitDB + UpgradeAll → Update) with no fault or one fault (statement index × {error before effect, " +
		"effect then error, effect then kill}); from every reached state the fault-free restart and an extra up-to-date run are checked; " +
		"a state is distinct if its canonical form differs"
	r.Assumptions = []string{
		"the server is modelled as one catalogue: ON CLUSTER statements apply to it atomically (partial application across replicas is not modelled)",
		"a single statement is atomic: it either has its whole effect or none (ClickHouse applies the commands of one ALTER to the metadata together)",
		"kill = the statement returns an error and every later statement of that process has no effect; the database server itself survives",
		"the same configuration is used for every restart",
		"DDL semantics of the fake (mc/fakeconn) follow ClickHouse for the statement shapes of ctrl/qryn/sql/*.sql; data rows other than ver/settings are not modelled",
	}
	if r.Replay != "" {
		replay(r)
		return
	}
	debug.SetGCPercent(150)
	if pf := os.Getenv("C18_PROF"); pf != "" {
		f, _ := os.Create(pf)
		pprof.StartCPUProfile(f)
	}
	// Pass 1: at most one faulted run per path (every statement × every position, then restarts) for every
	// configuration — cheap, always finishes.  Pass 2: closure under any number of faulted runs (nested faults).
	// C18_MAX_FAULTS=n replaces pass 2 by "at most n faulted runs per path".
	passes := []int{1, 1 << 30}
	if s := os.Getenv("C18_MAX_FAULTS"); s != "" {
		n, _ := strconv.Atoi(s)
		passes = []int{n}
	}
	kinds := map[string]int64{}
	perMode := map[string]any{}
	statesOf := map[string]int{}
	for pi, maxFault := range passes {
		if pi > 0 {
			kinds = map[string]int64{} // report the fault points of the deepest pass only
		}
		for _, cfg := range configs(r.Thorough()) {
			if r.Expired() {
				break
			}
			x := &explorer{r: r, cfg: cfg, maxFault: maxFault, workers: runtime.NumCPU(), kinds: kinds}
			t0, tr0 := time.Now(), r.Transitions
			x.explore()
			if len(x.nodes) > statesOf[cfg.Name] {
				statesOf[cfg.Name] = len(x.nodes)
			}
			stuck := 0
			for _, n := range x.nodes {
				if n.stuck {
					stuck++
				}
			}
			label := "any"
			if maxFault < 1<<30 {
				label = strconv.Itoa(maxFault)
			}
			perMode[cfg.Name+" (faulted runs per path ≤ "+label+")"] = map[string]any{"states": len(x.nodes), "runs": r.Transitions - tr0,
				"stuck_states": stuck, "wall_s": time.Since(t0).Seconds(), "complete": r.Exhaustive}
		}
	}
	for _, n := range statesOf {
		r.States += int64(n)
	}
	maxFault := passes[len(passes)-1]
	pprof.StopCPUProfile()
	r.Extra["per_mode"] = perMode
	kk := make([]string, 0, len(kinds))
	for k := range kinds {
		kk = append(kk, k)
	}
	sort.Strings(kk)
	fp := map[string]int64{}
	for _, k := range kk {
		fp[k] = kinds[k]
	}
	r.Extra["fault_points_by_statement_kind"] = fp
	if maxFault == 1<<30 {
		r.Extra["max_faulted_runs_per_path"] = "unbounded (closure)"
	} else {
		r.Extra["max_faulted_runs_per_path"] = maxFault
	}
	r.Extra["fault_positions"] = []string{"err_before", "err_after", "kill_after"}
	sc := map[string]int{}
	for _, s := range streams {
		sc[s.File] = len(s.Scripts)
	}
	r.Extra["scripts_per_file"] = sc
	r.Finish()
}
