# sourced by bin/check: adds the ConnectV2 seam (see mc/fakeconn/mkhook.py) to the build overlay
python3 "$VERIF_ROOT/mc/fakeconn/mkhook.py" "$VERIF_REPO" "$scratch" "$scratch/overlay.json"
