package main

// Writer half: exported profile parsers -> ProfileData -> real ProcessRequest of the profile insert service ->
// native block -> decoded rows (the stored representation).

import (
	"bytes"
	"context"
	"fmt"
	"io"
	"mime/multipart"
	"sync"

	"github.com/ClickHouse/ch-go/proto"
	wmodel "github.com/metrico/qryn/writer/model"
	wservice "github.com/metrico/qryn/writer/service"
	"github.com/metrico/qryn/writer/service/impl"
	"github.com/metrico/qryn/writer/utils/unmarshal"

	"verif/mc/chblock"
)

// treeRow is one stored node: Tuple(UInt64 parent, UInt64 function, UInt64 node, Array(Tuple(String, Int64 self, Int64 total))).
type treeRow struct {
	Parent, Fn, Node uint64
	Vals             []valT
}
type valT struct {
	Name        string
	Self, Total int64
}
type fnRow struct {
	ID   uint64
	Name string
}

// storedProf is one row of profiles_input as far as this property is concerned.
type storedProf struct {
	Tree      []treeRow
	Funcs     []fnRow
	Types     [][2]string // sample_types_units
	ValuesAgg []struct {
		Name  string
		Sum   int64
		Count int32
	}
	Type, PeriodType, PeriodUnit string
	Payload                      string // stored pprof (uncompressed), as MergeProfiles reads it
	// the remaining columns of the stored profiles_input row
	TimestampNs, DurationNs  uint64
	ServiceName, PayloadType string
	Tags                     [][2]string
}

var (
	profOnce sync.Once
	profSvc  *wservice.InsertServiceV2Multimodal
	profCols []wservice.IColPoolRes
)

func initWriter() {
	profOnce.Do(func() {
		wservice.CreateColPools(16)
		profSvc = impl.NewProfileSamplesInsertService(wmodel.InsertServiceOpts{Node: &wmodel.DataDatabasesMap{}}).(*wservice.InsertServiceV2Multimodal)
		profCols = profSvc.AcquireColumns()
	})
}

func pushCtx() context.Context {
	ctx := context.WithValue(context.Background(), "from", "1700000000000000000")
	ctx = context.WithValue(ctx, "until", "1700000010000000000")
	return context.WithValue(ctx, "name", "app{env=prod}")
}

const (
	viaBinaryRaw = iota // Content-Type binary/octet-stream, uncompressed pprof
	viaBinaryGz         // Content-Type binary/octet-stream, gzipped pprof
	viaMultipart        // multipart/form-data with a gzipped "profile" part
)

func multipartBody(gzProfile []byte) []byte {
	var buf bytes.Buffer
	w := multipart.NewWriter(&buf)
	w.SetBoundary("verifboundary0123456789")
	fw, _ := w.CreateFormFile("profile", "profile.pprof")
	fw.Write(gzProfile)
	w.Close()
	return buf.Bytes()
}

// segReader delivers the body in segments of at most n bytes (n = 0: whatever is asked for).
type segReader struct {
	data []byte
	n    int
	pos  int
}

func (s *segReader) Read(p []byte) (int, error) {
	if s.pos >= len(s.data) {
		return 0, io.EOF
	}
	end := len(s.data)
	if s.n > 0 && s.pos+s.n < end {
		end = s.pos + s.n
	}
	k := copy(p, s.data[s.pos:end])
	s.pos += k
	return k, nil
}

// parse runs one of the exported parsers on the rendered profile; seg > 0 delivers the body seg bytes per Read
// (seg < 0: in two halves).  The emitted ProfileData is only looked at after the parser's channel is closed.
func parse(p *Prof, via int, seg ...int) (*wmodel.ProfileData, error) {
	var body []byte
	var err error
	fn := unmarshal.UnmarshalBinaryStreamProfileProtoV2
	switch via {
	case viaBinaryRaw:
		body, err = p.encode(false)
	case viaBinaryGz:
		body, err = p.encode(true)
	case viaMultipart:
		body, err = p.encode(true)
		body = multipartBody(body)
		fn = unmarshal.UnmarshalProfileProtoV2
	}
	if err != nil {
		return nil, fmt.Errorf("render: %w", err)
	}
	var out *wmodel.ProfileData
	var perr error
	n := 0
	var rd io.Reader = bytes.NewReader(body)
	if len(seg) > 0 && seg[0] != 0 {
		n := seg[0]
		if n < 0 {
			n = (len(body) + 1) / 2
		}
		rd = &segReader{data: body, n: n}
	}
	for r := range fn(pushCtx(), rd, nil) {
		if r.Error != nil {
			perr = r.Error
			continue
		}
		if r.ProfileRequest != nil {
			if pd, ok := r.ProfileRequest.(*wmodel.ProfileData); ok {
				out = pd
				n++
			}
		}
	}
	if perr != nil {
		return nil, perr
	}
	if n != 1 {
		return nil, fmt.Errorf("parser emitted %d ProfileData, want 1", n)
	}
	return out, nil
}

func emitted(pd *wmodel.ProfileData) *storedProf {
	sp := &storedProf{}
	for _, t := range pd.Tree {
		r := treeRow{Parent: t.Field1, Fn: t.Field2, Node: t.Field3}
		for _, v := range t.ValueArrTuple {
			r.Vals = append(r.Vals, valT{v.ValueStr, v.FirstValueInt64, v.SecondValueInt64})
		}
		sp.Tree = append(sp.Tree, r)
	}
	for _, f := range pd.Function {
		sp.Funcs = append(sp.Funcs, fnRow{f.ValueInt64, f.ValueStr})
	}
	for _, s := range pd.SamplesTypesUnits {
		sp.Types = append(sp.Types, [2]string{s.Str1, s.Str2})
	}
	for _, v := range pd.ValuesAgg {
		sp.ValuesAgg = append(sp.ValuesAgg, struct {
			Name  string
			Sum   int64
			Count int32
		}{v.ValueStr, v.ValueInt64, v.ValueInt32})
	}
	if len(pd.Ptype) > 0 {
		sp.Type = pd.Ptype[0]
	}
	if len(pd.PeriodType) > 0 {
		sp.PeriodType = pd.PeriodType[0]
	}
	if len(pd.PeriodUnit) > 0 {
		sp.PeriodUnit = pd.PeriodUnit[0]
	}
	return sp
}

// store passes the ProfileData through the real ProcessRequest and decodes the block it would send.
func store(pd *wmodel.ProfileData) (sp *storedProf, types map[string]string, errStr string) {
	initWriter()
	defer func() {
		for _, c := range profCols {
			c.Reset()
		}
		if r := recover(); r != nil {
			sp, errStr = nil, fmt.Sprintf("panic: %v", r)
		}
	}()
	n, cols, err := profSvc.ProcessRequest(pd, profCols)
	if err != nil {
		return nil, nil, err.Error()
	}
	input := make([]proto.InputColumn, len(cols))
	for i, c := range cols {
		input[i] = c.Input()
	}
	raw, err := chblock.Encode(input)
	if err != nil {
		return nil, nil, "encode: " + err.Error()
	}
	blk, err := chblock.Decode(raw)
	if err != nil {
		return nil, nil, "decode: " + err.Error()
	}
	if blk.Rows != 1 || n != 1 {
		return nil, nil, fmt.Sprintf("one profile must give one row, ProcessRequest says %d, block has %d", n, blk.Rows)
	}
	types = map[string]string{}
	for i, nm := range blk.Names {
		types[nm] = blk.Types[i]
	}
	for _, nm := range []string{"tree", "functions", "sample_types_units", "values_agg", "type", "period_type", "period_unit"} {
		if blk.Col(nm) == nil {
			return nil, types, "block has no column " + nm
		}
	}
	sp = &storedProf{}
	for _, x := range blk.Col("tree")[0].([]any) {
		t := x.([]any)
		r := treeRow{Parent: t[0].(uint64), Fn: t[1].(uint64), Node: t[2].(uint64)}
		for _, y := range t[3].([]any) {
			v := y.([]any)
			r.Vals = append(r.Vals, valT{v[0].(string), v[1].(int64), v[2].(int64)})
		}
		sp.Tree = append(sp.Tree, r)
	}
	for _, x := range blk.Col("functions")[0].([]any) {
		t := x.([]any)
		sp.Funcs = append(sp.Funcs, fnRow{t[0].(uint64), t[1].(string)})
	}
	for _, x := range blk.Col("sample_types_units")[0].([]any) {
		t := x.([]any)
		sp.Types = append(sp.Types, [2]string{t[0].(string), t[1].(string)})
	}
	for _, x := range blk.Col("values_agg")[0].([]any) {
		t := x.([]any)
		sp.ValuesAgg = append(sp.ValuesAgg, struct {
			Name  string
			Sum   int64
			Count int32
		}{t[0].(string), t[1].(int64), t[2].(int32)})
	}
	sp.Type = blk.Col("type")[0].(string)
	sp.PeriodType = blk.Col("period_type")[0].(string)
	sp.PeriodUnit = blk.Col("period_unit")[0].(string)
	if c := blk.Col("payload"); c != nil {
		sp.Payload = c[0].(string)
	}
	for _, nm := range []string{"timestamp_ns", "duration_ns", "service_name", "payload_type", "tags"} {
		if blk.Col(nm) == nil {
			return nil, types, "block has no column " + nm
		}
	}
	sp.TimestampNs = blk.Col("timestamp_ns")[0].(uint64)
	sp.DurationNs = blk.Col("duration_ns")[0].(uint64)
	sp.ServiceName = blk.Col("service_name")[0].(string)
	sp.PayloadType = blk.Col("payload_type")[0].(string)
	for _, x := range blk.Col("tags")[0].([]any) {
		t := x.([]any)
		sp.Tags = append(sp.Tags, [2]string{t[0].(string), t[1].(string)})
	}
	return sp, types, ""
}

// expected column types of profiles_input (ctrl/qryn/sql/profiles.sql), LowCardinality(String) is sent as String
var schemaProfiles = map[string]string{
	"tree":               "Array(Tuple(UInt64,UInt64,UInt64,Array(Tuple(String,Int64,Int64))))",
	"functions":          "Array(Tuple(UInt64,String))",
	"sample_types_units": "Array(Tuple(String,String))",
	"values_agg":         "Array(Tuple(String,Int64,Int32))",
	"tags":               "Array(Tuple(String,String))",
	"timestamp_ns":       "UInt64",
	"duration_ns":        "UInt64",
	"type":               "String",
	"service_name":       "String",
	"period_type":        "String",
	"period_unit":        "String",
	"payload_type":       "String",
	"payload":            "String",
}
