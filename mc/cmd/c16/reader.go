package main

// Reader half: the stored trees are served to the real ProfService.MergeStackTraces by a scripted database/sql
// driver that evaluates the one query PlanMergeTraces produces (pick the sample type's values with arrayFirst,
// ARRAY JOIN, GROUP BY node, groupArray) over harness-held rows; and fed directly to the exported Tree.MergeTrie /
// Tree.BFS for the orders ClickHouse would never produce but the property quantifies over.

import (
	"context"
	"database/sql"
	"database/sql/driver"
	"errors"
	"fmt"
	"io"
	"sort"
	"strings"
	"sync"
	"time"

	"verif/mc/chsim"

	rconfig "github.com/metrico/cloki-config/config"
	rmodel "github.com/metrico/qryn/reader/model"
	rprof "github.com/metrico/qryn/reader/prof"
	rservice "github.com/metrico/qryn/reader/service"
	"google.golang.org/protobuf/proto"
)

// mergeDB holds the stored profiles_input rows.  The statement the reader sends is not recognised by its text: it is
// EXECUTED by the ClickHouse-subset interpreter mc/chsim over profiles_input and the tables the schema's materialized
// views derive from it (profiles, profiles_series, profiles_series_gin), so any equivalent formulation of the merge
// query (other CTE names, aliases, lambda variables, tuple(...) vs (...), spacing) gives the same rows.  A statement
// chsim cannot evaluate, or a result that does not have the shape the reader scans, is a failure of the machinery
// (errHarness -> exit 2), never a verdict.
type mergeDB struct {
	profs   []*storedProf
	perm    []int // permutation applied to the returned tree array (groupArray order is unspecified)
	revFns  bool  // reverse the returned functions array (groupUniqArrayArray order is unspecified)
	queries []string

	once sync.Once
	cdb  *chsim.DB
	cerr error
}

var errHarness = errors.New("harness")

func tuples2(xs [][2]string) chsim.Array {
	out := make(chsim.Array, 0, len(xs))
	for _, x := range xs {
		out = append(out, chsim.Tuple{x[0], x[1]})
	}
	return out
}

// profilesInputRow renders one stored row in the column order of chsim.QrynSchemas["profiles_input"].
func profilesInputRow(sp *storedProf) []chsim.Value {
	va := make(chsim.Array, 0, len(sp.ValuesAgg))
	for _, v := range sp.ValuesAgg {
		va = append(va, chsim.Tuple{v.Name, v.Sum, int64(v.Count)})
	}
	tree := make(chsim.Array, 0, len(sp.Tree))
	for _, t := range sp.Tree {
		vals := make(chsim.Array, 0, len(t.Vals))
		for _, v := range t.Vals {
			vals = append(vals, chsim.Tuple{v.Name, v.Self, v.Total})
		}
		tree = append(tree, chsim.Tuple{t.Parent, t.Fn, t.Node, vals})
	}
	fns := make(chsim.Array, 0, len(sp.Funcs))
	for _, f := range sp.Funcs {
		fns = append(fns, chsim.Tuple{f.ID, f.Name})
	}
	return []chsim.Value{sp.TimestampNs, sp.Type, sp.ServiceName, tuples2(sp.Types), sp.PeriodType, sp.PeriodUnit, tuples2(sp.Tags),
		sp.DurationNs, sp.PayloadType, sp.Payload, va, tree, fns}
}

func (m *mergeDB) db() (*chsim.DB, error) {
	m.once.Do(func() {
		want := []string{"timestamp_ns", "type", "service_name", "sample_types_units", "period_type", "period_unit", "tags", "duration_ns",
			"payload_type", "payload", "values_agg", "tree", "functions"}
		got := chsim.QrynSchemas["profiles_input"]
		if len(got) != len(want) {
			m.cerr = fmt.Errorf("%w: chsim's profiles_input schema has %d columns, the harness renders %d", errHarness, len(got), len(want))
			return
		}
		for i, c := range got {
			if name, _, _ := strings.Cut(c, " "); name != want[i] {
				m.cerr = fmt.Errorf("%w: chsim's profiles_input column %d is %s, the harness renders %s", errHarness, i, name, want[i])
				return
			}
		}
		db := chsim.NewDB()
		rows := make([][]chsim.Value, 0, len(m.profs))
		for _, sp := range m.profs {
			rows = append(rows, profilesInputRow(sp))
		}
		db.AddQrynTable("profiles_input", rows)
		for _, v := range []string{"profiles_mv", "profiles_series_mv", "profiles_series_gin_mv"} {
			if err := db.Materialize(v); err != nil {
				m.cerr = fmt.Errorf("%w: %v", errHarness, err)
				return
			}
		}
		for _, t := range []string{"profiles", "profiles_series", "profiles_series_gin"} {
			db.Alias(t, t+"_dist")
		}
		m.cdb = db
	})
	return m.cdb, m.cerr
}

// arrayOfTuples converts a chsim Array(Tuple(...)) into what clickhouse-go hands to database/sql: [][]any.
func arrayOfTuples(v chsim.Value, arity int, what string) ([][]any, error) {
	arr, ok := v.(chsim.Array)
	if !ok {
		return nil, fmt.Errorf("%w: column %s is %T, the reader scans an Array(Tuple)", errHarness, what, v)
	}
	out := make([][]any, 0, len(arr))
	for _, e := range arr {
		t, ok := e.(chsim.Tuple)
		if !ok || len(t) != arity {
			return nil, fmt.Errorf("%w: element of %s is %v, want a %d-tuple", errHarness, what, e, arity)
		}
		out = append(out, []any(t))
	}
	return out, nil
}

// The three functions below are the harness's own reading of the merge (used for the direct MergeTrie modes, which
// need un-aggregated rows, and to know how many aggregated rows to permute); the service path does not use them.

// pick is arrayMap(x -> (x.1, x.2, x.3, (arrayFirst(y -> y.1 == T, x.4) as af).2, af.3), tree) for one profile.
func pick(sp *storedProf, typ string) [][]any {
	out := make([][]any, 0, len(sp.Tree))
	for _, t := range sp.Tree {
		var self, total int64 // arrayFirst yields the default tuple when nothing matches
		for _, v := range t.Vals {
			if v.Name == typ {
				self, total = v.Self, v.Total
				break
			}
		}
		out = append(out, []any{t.Parent, t.Fn, t.Node, self, total})
	}
	return out
}

func fnsOf(sp *storedProf) [][]any {
	out := make([][]any, 0, len(sp.Funcs))
	for _, f := range sp.Funcs {
		out = append(out, []any{f.ID, f.Name})
	}
	return out
}

// aggregate is SELECT (rtree.1, rtree.2, rtree.3, sum(rtree.4), sum(rtree.5)) ... GROUP BY rtree.1, rtree.2, rtree.3 ORDER BY rtree.1
func aggregate(profs []*storedProf, typ string) [][]any {
	type key struct{ p, f, n uint64 }
	idx := map[key]int{}
	var rows [][]any
	for _, sp := range profs {
		for _, r := range pick(sp, typ) {
			k := key{r[0].(uint64), r[1].(uint64), r[2].(uint64)}
			if i, ok := idx[k]; ok {
				rows[i][3] = rows[i][3].(int64) + r[3].(int64)
				rows[i][4] = rows[i][4].(int64) + r[4].(int64)
				continue
			}
			idx[k] = len(rows)
			rows = append(rows, r)
		}
	}
	sort.SliceStable(rows, func(i, j int) bool { return rows[i][0].(uint64) < rows[j][0].(uint64) })
	return rows
}

func uniqFns(profs []*storedProf) [][]any {
	seen := map[string]bool{}
	var out [][]any
	for _, sp := range profs {
		for _, f := range sp.Funcs {
			k := fmt.Sprintf("%d\x00%s", f.ID, f.Name)
			if !seen[k] {
				seen[k] = true
				out = append(out, []any{f.ID, f.Name})
			}
		}
	}
	return out
}

func permute(rows [][]any, perm []int) [][]any {
	if perm == nil {
		return rows
	}
	out := make([][]any, len(rows))
	for i, p := range perm {
		out[i] = rows[p]
	}
	return out
}

type mconnector struct{ db *mergeDB }

func (c *mconnector) Connect(context.Context) (driver.Conn, error) { return &mconn{c.db}, nil }
func (c *mconnector) Driver() driver.Driver                        { return mdrv{} }

type mdrv struct{}

func (mdrv) Open(string) (driver.Conn, error) { return nil, fmt.Errorf("use the connector") }

type mconn struct{ db *mergeDB }

func (c *mconn) Prepare(string) (driver.Stmt, error) { return nil, fmt.Errorf("prepare not supported") }
func (c *mconn) Close() error                        { return nil }
func (c *mconn) Begin() (driver.Tx, error)           { return nil, fmt.Errorf("no tx") }

var stmtCache sync.Map // sql text -> *chsim.Stmt | error

func (c *mconn) QueryContext(ctx context.Context, q string, args []driver.NamedValue) (driver.Rows, error) {
	c.db.queries = append(c.db.queries, q)
	db, err := c.db.db()
	if err != nil {
		return nil, err
	}
	var st *chsim.Stmt
	if x, ok := stmtCache.Load(q); ok {
		if st, ok = x.(*chsim.Stmt); !ok {
			return nil, x.(error)
		}
	} else {
		p, err := chsim.Parse(q)
		if err != nil {
			err = fmt.Errorf("%w: the interpreter cannot parse the statement: %v: %s", errHarness, err, q)
			stmtCache.Store(q, err)
			return nil, err
		}
		stmtCache.Store(q, p)
		st = p
	}
	res, err := db.Exec(st)
	if err != nil {
		// ErrUnsupported = outside the interpreter's subset; a ClickHouse exception would make every flame graph
		// request fail, which is not what C16 is about: both are reported as machinery failures with the text
		return nil, fmt.Errorf("%w: the interpreter cannot evaluate the statement: %v: %s", errHarness, err, q)
	}
	if len(res.Rows) != 1 || len(res.Cols) != 2 {
		return nil, fmt.Errorf("%w: the statement returns %d rows x %d columns, the reader scans one row of (tree, functions): %s", errHarness, len(res.Rows), len(res.Cols), q)
	}
	rows, err := arrayOfTuples(res.Rows[0][0], 5, res.Cols[0])
	if err != nil {
		return nil, err
	}
	for _, r := range rows {
		_, ok0 := r[0].(uint64)
		_, ok3 := r[3].(int64)
		_, ok4 := r[4].(int64)
		if !ok0 || !ok3 || !ok4 {
			return nil, fmt.Errorf("%w: tree tuple %v does not have the types (UInt64, UInt64, UInt64, Int64, Int64)", errHarness, r)
		}
	}
	fns, err := arrayOfTuples(res.Rows[0][1], 2, res.Cols[1])
	if err != nil {
		return nil, err
	}
	if c.db.perm != nil {
		if len(c.db.perm) != len(rows) {
			return nil, fmt.Errorf("%w: the statement returns %d tree rows, the reference aggregation %d", errHarness, len(rows), len(c.db.perm))
		}
		rows = permute(rows, c.db.perm)
	}
	if c.db.revFns {
		for i, j := 0, len(fns)-1; i < j; i, j = i+1, j-1 {
			fns[i], fns[j] = fns[j], fns[i]
		}
	}
	return &oneRow{cols: res.Cols, vals: []driver.Value{rows, fns}}, nil
}

type oneRow struct {
	cols []string
	vals []driver.Value
	done bool
}

func (r *oneRow) Columns() []string { return r.cols }
func (r *oneRow) Close() error      { return nil }
func (r *oneRow) Next(dest []driver.Value) error {
	if r.done {
		return io.EOF
	}
	r.done = true
	copy(dest, r.vals)
	return nil
}

type fakeSession struct{ db *sql.DB }

func (f *fakeSession) GetName() string { return "fake" }
func (f *fakeSession) QueryCtx(ctx context.Context, q string, args ...any) (*sql.Rows, error) {
	return f.db.QueryContext(ctx, q, args...)
}
func (f *fakeSession) ExecCtx(ctx context.Context, q string, args ...any) error {
	return fmt.Errorf("fake: exec not supported")
}
func (f *fakeSession) Conn(ctx context.Context) (*sql.Conn, error) { return f.db.Conn(ctx) }
func (f *fakeSession) Begin() (*sql.Tx, error)                     { return nil, fmt.Errorf("no tx") }
func (f *fakeSession) Close()                                      { f.db.Close() }

type fakeRegistry struct{ s *fakeSession }

func (r *fakeRegistry) GetDB(ctx context.Context) (*rmodel.DataDatabasesMap, error) {
	return &rmodel.DataDatabasesMap{Config: &rconfig.ClokiBaseDataBase{Name: "qryn"}, Session: r.s}, nil
}
func (r *fakeRegistry) Run()        {}
func (r *fakeRegistry) Stop()       {}
func (r *fakeRegistry) Ping() error { return nil }

// flame is a flame graph in the response form.
type flame struct {
	Names   []string
	Levels  [][]int64
	Total   int64
	MaxSelf int64
}

func typeID(j int) string {
	return profType + ":" + sampleTypes[j][0] + ":" + sampleTypes[j][1] + ":" + periodTyp + ":" + periodUnt
}

// viaService runs the real ProfService.MergeStackTraces over the scripted driver.
func viaService(mdb *mergeDB, j int) (*flame, error) {
	db := sql.OpenDB(&mconnector{mdb})
	defer db.Close()
	ps := &rservice.ProfService{DataSession: &fakeRegistry{&fakeSession{db}}}
	resp, err := ps.MergeStackTraces(context.Background(), `{service_name="app"}`, typeID(j),
		time.Unix(1699999000, 0), time.Unix(1700001000, 0))
	if err != nil {
		return nil, err
	}
	fg := resp.Flamegraph
	f := &flame{Names: fg.Names, Total: fg.Total, MaxSelf: fg.MaxSelf}
	for _, l := range fg.Levels {
		f.Levels = append(f.Levels, l.Values)
	}
	return f, nil
}

// viaTree feeds row batches directly to the exported Tree.MergeTrie (one call per batch) and lays it out with BFS,
// exactly as ProfService.getTree / MergeStackTraces do.
func viaTree(batches [][][]any, fns [][][]any, j int) *flame {
	typ := typeName(j)
	t := rservice.NewTree()
	t.SampleTypes = []string{typ}
	for i := range batches {
		t.MergeTrie(batches[i], fns[i], typ)
	}
	f := &flame{Names: t.Names, Total: t.Total()[0], MaxSelf: t.MaxSelf()[0]}
	for _, l := range t.BFS(typ) {
		f.Levels = append(f.Levels, l.Values)
	}
	return f
}

// maxSelfProbe documents the suspected case "maxSelf is sized 1 regardless of the number of sample types": a Tree with
// two sample types panics in MergeTrie for the second one.  ProfService.getTree always builds a Tree with exactly one
// sample type, so this is unreachable through the service; recorded as an observation, never a violation.
func maxSelfProbe() (out string) {
	defer func() {
		if r := recover(); r != nil {
			out = fmt.Sprintf("Tree{SampleTypes: 2 types}.MergeTrie(second type) panics: %v (unreachable: ProfService.getTree always uses one sample type)", r)
		}
	}()
	t := rservice.NewTree()
	t.SampleTypes = []string{typeName(0), typeName(1)}
	t.MergeTrie([][]any{{uint64(0), uint64(1), uint64(2), int64(1), int64(1)}}, [][]any{{uint64(1), "f"}}, typeName(1))
	return "Tree with two sample types merges the second type without panic"
}

// payloadMerge is an auxiliary observation outside the C16 statement (which speaks about the stored call TREE): the
// stored pprof payloads of the same profiles merged by ProfileMergeV2 exactly as ProfService.MergeProfiles does.
// Returns the per-type sums of the merged profile's sample values, or the panic it died with.
func payloadMerge(sts []*storedProf) (sums []int64, failure string) {
	defer func() {
		if r := recover(); r != nil {
			sums, failure = nil, fmt.Sprintf("panic: %v", r)
		}
	}()
	m := rservice.NewProfileMergeV2()
	for _, st := range sts {
		var p rprof.Profile
		if err := proto.Unmarshal([]byte(st.Payload), &p); err != nil {
			return nil, "unmarshal: " + err.Error()
		}
		if err := m.Merge(&p); err != nil {
			return nil, "merge: " + err.Error()
		}
	}
	out := m.Profile()
	sums = make([]int64, len(out.SampleType))
	for _, s := range out.Sample {
		for j, v := range s.Value {
			if j < len(sums) {
				sums[j] += v
			}
		}
	}
	return sums, ""
}
