package main

// Bounded-exhaustive enumeration: phase 1 = single profiles (every multiset of <= 3 samples over a stack alphabet x
// every value assignment from {0,1,5} per sample type), phase 2 = every ordered sequence of <= 3 profiles from a pool
// (= every multiset in every merge order), each with every row order for small trees.

import "fmt"

// ---- stack alphabets ------------------------------------------------------------------------------------------------

// all stacks of depth 1..3 over the single-line locations L0..L(n-1), leaf first
func plainStacks(nloc, maxDepth int) [][]int {
	var out [][]int
	var rec func(cur []int)
	rec = func(cur []int) {
		if len(cur) > 0 {
			out = append(out, append([]int{}, cur...))
		}
		if len(cur) == maxDepth {
			return
		}
		for l := 0; l < nloc; l++ {
			rec(append(cur, l))
		}
	}
	rec(nil)
	return out
}

// stacks exercising the special locations: L3 (no line info), L4 (two lines), and the empty stack
var specialStacks = [][]int{{}, {3}, {3, 0}, {0, 3}, {1, 3, 0}, {4}, {4, 2}, {2, 4}, {0, 4, 0}, {3, 4}}

func stackAlphabet(nloc, depth int, specials int) [][]int {
	return append(plainStacks(nloc, depth), specialStacks[:specials]...)
}

var valueSet = []int64{0, 1, 5}

// combos with repetition of k indices below n, non-decreasing
func multisets(n, k int) [][]int {
	var out [][]int
	var rec func(start int, cur []int)
	rec = func(start int, cur []int) {
		if len(cur) == k {
			out = append(out, append([]int{}, cur...))
			return
		}
		for i := start; i < n; i++ {
			rec(i, append(cur, i))
		}
	}
	rec(0, nil)
	return out
}

type family struct {
	name   string
	stacks [][]int
	sets   [][]int // multisets of stack indices
	k      int
	ntypes int
	vias   int // 1 = binary raw only, 3 = also binary gzip and multipart
	perms  bool
	size   int
	nvals  int
}

func newFam(name string, stacks [][]int, k, ntypes, vias int, perms bool) *family {
	f := &family{name: name, stacks: stacks, k: k, ntypes: ntypes, vias: vias, perms: perms}
	f.sets = multisets(len(stacks), k)
	f.nvals = 1
	for i := 0; i < k*ntypes; i++ {
		f.nvals *= len(valueSet)
	}
	f.size = len(f.sets) * f.nvals
	return f
}

func (f *family) at(i int) *Prof {
	set := f.sets[i/f.nvals]
	v := i % f.nvals
	p := &Prof{NTypes: f.ntypes}
	for _, si := range set {
		s := Smp{Stack: f.stacks[si]}
		for j := 0; j < f.ntypes; j++ {
			s.Vals = append(s.Vals, valueSet[v%len(valueSet)])
			v /= len(valueSet)
		}
		p.Samples = append(p.Samples, s)
	}
	return p
}

// ---- pool for merging ----------------------------------------------------------------------------------------------

func poolProfiles(n int) []*Prof {
	vv := [][]int64{{1, 5}, {5, 1}, {0, 5}, {5, 0}, {1, 1}, {5, 5}, {0, 0}, {1, 0}}
	shapes := [][][]int{
		{{0}}, {{1, 0}}, {{0, 0}}, {{2, 1, 0}}, {{1}, {0}}, {{1, 0}, {0}}, {{3, 0}, {0}}, {{4}, {1, 0}},
		{{0, 0, 0}, {0, 0}, {0}}, {{0, 1}, {1, 0}}, {{2, 1, 0}, {1, 0}, {0}}, {{}, {0}}, {{1, 0}, {1, 0}}, {{2, 4}, {2, 0}},
		{{1}, {2}, {0}}, {{2, 1}, {2, 0}, {2, 2}}, {{3}}, {{1, 1, 0}, {1, 0}}, {{0, 2}, {1, 2}, {2}}, {{4, 2}, {1, 2}},
		{{2}}, {{1, 1}}, {{0, 1, 0}}, {{2, 0}, {1}}, {{0, 3}, {3}}, {{1, 2, 0}, {2, 0}}, {{0, 1}, {0}}, {{2, 2, 2}},
		{{1, 0, 0}, {0, 0}}, {{0, 4, 0}}, {{2, 0, 1}, {0, 1}, {1}}, {{1, 3, 0}, {3, 0}}, {{0}, {0}}, {{2, 1}, {1}},
		{{1, 2}, {2, 1}}, {{0, 0, 1}}, {{2, 2, 1}, {2, 1}}, {{1, 0}, {2, 0}, {0}}, {{0, 2, 2}}, {{3, 4}, {4}},
	}
	if n > len(shapes) {
		n = len(shapes)
	}
	var out []*Prof
	for i := 0; i < n; i++ {
		p := &Prof{NTypes: 2}
		for k, st := range shapes[i] {
			p.Samples = append(p.Samples, Smp{Stack: st, Vals: vv[(i+3*k)%len(vv)]})
		}
		out = append(out, p)
	}
	return out
}

type space struct {
	fams    []*family
	p1      int // number of phase-1 cases
	pool    []*Prof
	total   int
	seqLens []int

	// boundary classes derived from the numeric limits found in the anchored code (limits.go)
	scan      *limitScan
	deep      []*Prof   // single profiles with stacks at the boundary depths
	deepSeqs  [][]*Prof // merge sequences containing them
	nPoolSeqs int
	hist      []histCase
}

type histCase struct {
	a, b *Prof
	hist string
	via  int
}

// histories: every ordered pair of profiles of different size classes (1 node ... 6 nodes; smaller, equal, larger)
func historyCases(pool []*Prof) []histCase {
	ps := []*Prof{pool[0], pool[1], pool[2], pool[3], pool[4], pool[8], pool[10], pool[14], pool[12]}
	var out []histCase
	for _, a := range ps {
		for _, b := range ps {
			for _, h := range []string{"handover", "retry"} {
				for _, via := range []int{viaBinaryRaw, viaMultipart} {
					out = append(out, histCase{a, b, h, via})
				}
			}
		}
	}
	return out
}

// deepProfiles: for every boundary depth two profiles, each with a normal shallow sample next to the deep one:
// A = the three functions in rotation (so every function recurs), B = one function repeated (pure recursion).
func deepProfiles(depths []int) (single []*Prof, seqs [][]*Prof, pool1 *Prof) {
	for _, d := range depths {
		rot := make([]int, d)
		rec := make([]int, d)
		for i := range rot {
			rot[i] = (d - 1 - i) % 3 // leaf first; the root is always L0
		}
		a := &Prof{NTypes: 2, Samples: []Smp{{Stack: rot, Vals: []int64{5, 1}}, {Stack: []int{1, 0}, Vals: []int64{1, 5}}}}
		b := &Prof{NTypes: 2, Samples: []Smp{{Stack: rec, Vals: []int64{1, 5}}, {Stack: []int{0}, Vals: []int64{5, 1}}}}
		single = append(single, a, b)
		seqs = append(seqs, []*Prof{a, nil}, []*Prof{b, a})
	}
	return
}

func (s *space) seqAt(i int) []int {
	n := len(s.pool)
	// sequences of length 1, then 2, then 3
	if i < n {
		return []int{i}
	}
	i -= n
	if i < n*n {
		return []int{i / n, i % n}
	}
	i -= n * n
	return []int{i / (n * n), (i / n) % n, i % n}
}

func buildSpace(thorough bool) *space {
	s := &space{}
	add := func(f *family) { s.fams = append(s.fams, f); s.p1 += f.size }
	if thorough {
		full := stackAlphabet(3, 3, len(specialStacks)) // 39 + 10
		add(newFam("t1-k1", full, 1, 1, 3, true))
		add(newFam("t1-k2", full, 2, 1, 3, true))
		add(newFam("t1-k3", full, 3, 1, 1, false))
		add(newFam("t2-k1", full, 1, 2, 3, true))
		add(newFam("t2-k2", full, 2, 2, 1, true))
		add(newFam("t2-k3", stackAlphabet(2, 3, 6), 3, 2, 1, false)) // 14 + 6
		s.pool = poolProfiles(40)
	} else {
		full := stackAlphabet(3, 3, len(specialStacks))
		add(newFam("t1-k1", full, 1, 1, 3, true))
		add(newFam("t1-k2", full, 2, 1, 3, true))
		add(newFam("t1-k3", stackAlphabet(3, 2, 6), 3, 1, 1, false)) // 12 + 6
		add(newFam("t2-k1", full, 1, 2, 3, true))
		add(newFam("t2-k2", stackAlphabet(3, 2, 6), 2, 2, 1, true))
		add(newFam("t2-k3", stackAlphabet(2, 2, 4), 3, 2, 1, false)) // 6 + 4
		s.pool = poolProfiles(20)
	}
	n := len(s.pool)
	s.nPoolSeqs = n + n*n + n*n*n
	s.scan = scanLimits()
	s.deep, s.deepSeqs, _ = deepProfiles(s.scan.Depths)
	for _, q := range s.deepSeqs {
		if q[1] == nil {
			q[1] = s.pool[1] // a deep profile merged with a normal one that shares its root
		}
	}
	s.hist = historyCases(s.pool)
	s.total = s.p1 + len(s.deep) + s.nPoolSeqs + len(s.deepSeqs) + len(s.hist)
	return s
}

func (s *space) describe() map[string]any {
	m := map[string]any{}
	for _, f := range s.fams {
		m[f.name] = fmt.Sprintf("%d stacks, %d multisets of %d samples x %d value assignments = %d profiles (parsers: %d)", len(f.stacks), len(f.sets), f.k, f.nvals, f.size, f.vias)
	}
	n := len(s.pool)
	m["boundary-depth"] = fmt.Sprintf("%d stack depths %v x {3 functions in rotation, pure recursion} + a shallow sample = %d profiles (3 parsers x 4 deliveries), %d merge sequences", len(s.scan.Depths), s.scan.Depths, len(s.deep), len(s.deepSeqs))
	m["history"] = fmt.Sprintf("%d cases: ordered pairs of 9 profiles x {handover, retry} x {binary, multipart}", len(s.hist))
	m["merge"] = fmt.Sprintf("pool of %d profiles: %d ordered sequences of 1..3 profiles", n, n+n*n+n*n*n)
	return m
}
