package main

// Numeric limits in the anchored code are boundary values of the input alphabet.  The anchored files of the
// repository under test are parsed with go/ast; every integer literal, every constant expression that can be folded
// (literals, named constants of the same file, + - * / << >>) and, for every shift by k bits, the field width limits
// 2^k and 2^k-1 are collected.  A limit an input dimension can reach (stack depth: 16..maxDepthReach) contributes the
// classes {L-1, L, L+1, L+2, 1.2*L, 3*L} to that dimension; limits out of reach are listed in the evidence.

import (
	"go/ast"
	"go/parser"
	"go/token"
	"path/filepath"
	"sort"
	"strconv"

	"verif/mc/ev"
)

const (
	minDepthLimit = 16
	maxDepthReach = 4096
)

var anchoredGlobs = []string{
	"writer/utils/unmarshal/*[pP]prof*.go",
	"reader/service/prof*.go",
	"reader/prof/transpiler/planner_merge*.go",
}

type limitScan struct {
	Files      []string `json:"files"`
	InReach    []int64  `json:"limits_reachable_by_stack_depth"`
	OutOfReach []int64  `json:"limits_out_of_reach"`
	Depths     []int    `json:"stack_depth_classes"`
}

func foldConst(e ast.Expr, env map[string]int64) (int64, bool) {
	switch x := e.(type) {
	case *ast.BasicLit:
		if x.Kind != token.INT {
			return 0, false
		}
		v, err := strconv.ParseInt(x.Value, 0, 64)
		return v, err == nil
	case *ast.Ident:
		v, ok := env[x.Name]
		return v, ok
	case *ast.ParenExpr:
		return foldConst(x.X, env)
	case *ast.CallExpr: // conversions like uint64(x), int64(x)
		if id, ok := x.Fun.(*ast.Ident); ok && len(x.Args) == 1 {
			switch id.Name {
			case "int", "int32", "int64", "uint", "uint32", "uint64":
				return foldConst(x.Args[0], env)
			}
		}
	case *ast.BinaryExpr:
		a, ok1 := foldConst(x.X, env)
		b, ok2 := foldConst(x.Y, env)
		if !ok1 || !ok2 {
			return 0, false
		}
		switch x.Op {
		case token.ADD:
			return a + b, true
		case token.SUB:
			return a - b, true
		case token.MUL:
			return a * b, true
		case token.QUO:
			if b != 0 {
				return a / b, true
			}
		case token.SHL:
			if b >= 0 && b < 62 {
				return a << uint(b), true
			}
		case token.SHR:
			if b >= 0 && b < 64 {
				return a >> uint(b), true
			}
		}
	}
	return 0, false
}

func scanLimits() *limitScan {
	ls := &limitScan{}
	vals := map[int64]bool{}
	for _, g := range anchoredGlobs {
		files, _ := filepath.Glob(filepath.Join(ev.Repo(), g))
		sort.Strings(files)
		for _, f := range files {
			if len(f) > 8 && f[len(f)-8:] == "_test.go" {
				continue
			}
			fset := token.NewFileSet()
			af, err := parser.ParseFile(fset, f, nil, 0)
			if err != nil {
				ev.Fatal("limit scan: cannot parse %s: %v", f, err)
			}
			rel, _ := filepath.Rel(ev.Repo(), f)
			ls.Files = append(ls.Files, rel)
			// named constants of the file (iterated to a fixed point: a constant may refer to a later one)
			env := map[string]int64{}
			for pass := 0; pass < 4; pass++ {
				for _, d := range af.Decls {
					gd, ok := d.(*ast.GenDecl)
					if !ok || gd.Tok != token.CONST {
						continue
					}
					for _, sp := range gd.Specs {
						vs := sp.(*ast.ValueSpec)
						for i, n := range vs.Names {
							if i < len(vs.Values) {
								if v, ok := foldConst(vs.Values[i], env); ok {
									env[n.Name] = v
								}
							}
						}
					}
				}
			}
			for _, v := range env {
				vals[v] = true
			}
			ast.Inspect(af, func(n ast.Node) bool {
				e, ok := n.(ast.Expr)
				if !ok {
					return true
				}
				if v, ok := foldConst(e, env); ok {
					vals[v] = true
				}
				if b, ok := e.(*ast.BinaryExpr); ok && (b.Op == token.SHL || b.Op == token.SHR) {
					if k, ok := foldConst(b.Y, env); ok && k > 0 && k < 40 {
						vals[int64(1)<<uint(k)] = true
						vals[int64(1)<<uint(k)-1] = true
					}
				}
				return true
			})
		}
	}
	if len(ls.Files) == 0 {
		ev.Fatal("limit scan: none of the anchored files %v exists under %s", anchoredGlobs, ev.Repo())
	}
	depths := map[int]bool{}
	for v := range vals {
		switch {
		case v >= minDepthLimit && v <= maxDepthReach/3:
			ls.InReach = append(ls.InReach, v)
			for _, d := range []int64{v - 1, v, v + 1, v + 2, v + v/5, 3 * v} {
				depths[int(d)] = true
			}
		case v > maxDepthReach/3:
			ls.OutOfReach = append(ls.OutOfReach, v)
		}
	}
	sort.Slice(ls.InReach, func(i, j int) bool { return ls.InReach[i] < ls.InReach[j] })
	sort.Slice(ls.OutOfReach, func(i, j int) bool { return ls.OutOfReach[i] < ls.OutOfReach[j] })
	for d := range depths {
		ls.Depths = append(ls.Depths, d)
	}
	sort.Ints(ls.Depths)
	return ls
}
