package main

// Oracle for C16, written against the statement:
//  (a) per sample type every stored node's total = self + sum of its children's totals;
//  (b) the root totals add up to the sum of the profile's sample values;
//  (c) merging stored trees of any number of profiles in any order yields a flame graph whose totals are the sums of
//      the inputs;
//  (d) every level's bars nest inside their parent's span (and siblings do not overlap);
//  plus: names resolve to the pushed function names.

import (
	"encoding/json"
	"errors"
	"fmt"
	"sort"
	"strings"

	"verif/mc/wkpool"
)

type checker struct {
	perClass map[string]int
	res      *wkpool.CaseResult
	seen     map[string]bool
	rep      any
	rjson    json.RawMessage
}

func newChecker(rep any) *checker {
	return &checker{res: &wkpool.CaseResult{Counters: map[string]int64{}}, seen: map[string]bool{}, rep: rep}
}

func (c *checker) viol(class, format string, a ...any) {
	// a broken deep tree can produce thousands of findings of one class: keep the first few per case and do not
	// even format the rest (arguments may be large)
	if c.perClass == nil {
		c.perClass = map[string]int{}
	}
	c.perClass[class]++
	if c.perClass[class] > 6 {
		return
	}
	what := fmt.Sprintf(format, a...)
	if len(what) > 500 {
		what = what[:500] + "…"
	}
	k := class + "\x00" + what
	if c.seen[k] {
		return
	}
	c.seen[k] = true
	if c.rjson == nil {
		c.rjson, _ = json.Marshal(c.rep)
	}
	c.res.Viols = append(c.res.Viols, wkpool.Viol{Class: class, What: what, Replay: c.rjson})
}

func (c *checker) count(k string) { c.res.Counters[k]++ }

// harnessClass marks a record that is not a verdict: the machinery (interpreter, scripted driver) could not evaluate
// something.  The parent turns it into exit 2.
const harnessClass = "HARNESS-ERROR"

// serviceFailed: MergeStackTraces returned an error.  If it comes from the harness's own database stand-in it is a
// machinery failure; otherwise the real service could not produce a flame graph from well-formed rows.
func (c *checker) serviceFailed(err error) {
	if errors.Is(err, errHarness) || strings.Contains(err.Error(), errHarness.Error()+":") {
		c.viol(harnessClass, "%v", err)
		return
	}
	c.viol("merge_stack_traces_failed", "%v", err)
}

var pushedName = func() map[string]bool {
	m := map[string]bool{}
	for _, n := range funcNames {
		m[n] = true
	}
	return m
}()

// ---- (a)(b): one stored tree ---------------------------------------------------------------------------------------

// checkStoredTree checks one profile's stored tree against the model; returns the trie it encodes (per path).
func (c *checker) checkStoredTree(p *Prof, sp *storedProf, where string) trie {
	// sample types
	if len(sp.Types) != p.NTypes {
		c.viol("sample_types_count", "%s: %d sample types stored, profile has %d", where, len(sp.Types), p.NTypes)
		return nil
	}
	for j := 0; j < p.NTypes; j++ {
		if sp.Types[j] != sampleTypes[j] {
			c.viol("sample_types_changed", "%s: sample type %d stored as %v, pushed %v", where, j, sp.Types[j], sampleTypes[j])
		}
	}
	fn := map[uint64]string{}
	for _, f := range sp.Funcs {
		if old, dup := fn[f.ID]; dup && old != f.Name {
			c.viol("function_id_collision", "%s: function id %d names both %q and %q", where, f.ID, old, f.Name)
		}
		fn[f.ID] = f.Name
	}
	hasNoLines := p.hasEmptyStack() // the weight of a frameless sample can only sit under a placeholder frame
	for _, s := range p.Samples {
		for _, l := range s.Stack {
			if len(locLines[l]) == 0 {
				hasNoLines = true
			}
		}
	}
	byID := map[uint64]*treeRow{}
	children := map[uint64][]*treeRow{}
	for i := range sp.Tree {
		r := &sp.Tree[i]
		if byID[r.Node] != nil {
			c.viol("node_id_duplicate", "%s: node id %d appears twice in the stored tree", where, r.Node)
		}
		byID[r.Node] = r
		children[r.Parent] = append(children[r.Parent], r)
		if len(r.Vals) != p.NTypes {
			c.viol("node_values_count", "%s: node %d has %d value tuples, profile has %d sample types", where, r.Node, len(r.Vals), p.NTypes)
			return nil
		}
		for j := range r.Vals {
			if r.Vals[j].Name != typeName(j) {
				c.viol("node_value_name", "%s: node %d value %d is named %q, want %q", where, r.Node, j, r.Vals[j].Name, typeName(j))
			}
		}
	}
	for _, r := range sp.Tree {
		if r.Parent != 0 && byID[r.Parent] == nil {
			c.viol("node_parent_missing", "%s: node %d refers to parent %d which is not in the tree", where, r.Node, r.Parent)
		}
	}
	// (a) conservation
	for _, r := range sp.Tree {
		for j := 0; j < p.NTypes; j++ {
			var kids int64
			for _, ch := range children[r.Node] {
				kids += ch.Vals[j].Total
			}
			if r.Vals[j].Total != r.Vals[j].Self+kids {
				name := fn[r.Fn]
				c.viol("node_total_not_self_plus_children", "%s: node %q (%s): total %d != self %d + children %d", where, name, typeName(j), r.Vals[j].Total, r.Vals[j].Self, kids)
			}
		}
	}
	// (b) roots
	for j := 0; j < p.NTypes; j++ {
		var roots int64
		for _, r := range children[0] {
			roots += r.Vals[j].Total
		}
		want := p.sampleSum(j)
		if roots != want {
			if want-roots == p.emptyStackSum(j) {
				c.viol("empty_stack_sample_weight_not_in_tree", "%s: root totals %d, sample values sum to %d (%s): the %d carried by samples without frames are in no node", where, roots, want, typeName(j), want-roots)
			} else {
				c.viol("root_totals_not_sample_sum", "%s: root totals %d, sample values sum to %d (%s)", where, roots, want, typeName(j))
			}
		}
	}
	// names + path trie
	got := trie{}
	var walk func(parent uint64, prefix string, depth int)
	walk = func(parent uint64, prefix string, depth int) {
		if depth > 100000 {
			return
		}
		for _, r := range children[parent] {
			name, ok := fn[r.Fn]
			if !ok {
				c.viol("function_id_unresolved", "%s: node %d refers to function id %d which is not in the functions array", where, r.Node, r.Fn)
				name = fmt.Sprintf("#%d", r.Fn)
			} else if !pushedName[name] {
				if hasNoLines {
					name = noLines
				} else {
					c.viol("function_name_not_pushed", "%s: node %d is named %q which is no pushed function name", where, r.Node, name)
				}
			}
			path := name
			if prefix != "" {
				path = prefix + sep + name
			}
			n := got[path]
			if n == nil {
				n = &refNode{Self: make([]int64, p.NTypes), Total: make([]int64, p.NTypes)}
				got[path] = n
			} else {
				c.count("two_nodes_same_path")
			}
			for j := 0; j < p.NTypes; j++ {
				n.Self[j] += r.Vals[j].Self
				n.Total[j] += r.Vals[j].Total
			}
			walk(r.Node, path, depth+1)
		}
	}
	walk(0, "", 0)
	want := refTrie(p, false, false)
	if !trieEqual(got, want) {
		switch {
		case p.hasMultiLine() && trieEqual(got, refTrie(p, true, false)):
			c.count("inlined_frames_expanded")
		case c.truncatedAt(p, got) > 0:
			// a deliberate truncation of deep stacks is accepted when it follows the rule "the frames below the
			// limit are cut off and their weight stays on the last kept node as self" (conservation was checked above)
			c.count(fmt.Sprintf("deep_stacks_truncated_at_%d_frames", c.truncatedAt(p, got)))
		case p.hasEmptyStack() && (trieEqual(got, refTrie(p, false, true)) || trieEqual(got, refTrie(p, true, true))):
			// the tree is the call trie of the samples that have frames: this is exactly the deviation already
			// reported above as empty_stack_sample_weight_not_in_tree (when the lost weight is non-zero)
			c.count("frameless_samples_left_out_of_tree")
		default:
			c.viol("tree_differs_from_call_trie", "%s: stored tree {%s} is not the call trie of the samples {%s}", where, got, want)
		}
	}
	return got
}

func storedEqual(a, b *storedProf) string {
	if len(a.Tree) != len(b.Tree) {
		return fmt.Sprintf("%d vs %d tree rows", len(a.Tree), len(b.Tree))
	}
	for i := range a.Tree {
		x, y := a.Tree[i], b.Tree[i]
		if x.Parent != y.Parent || x.Fn != y.Fn || x.Node != y.Node || len(x.Vals) != len(y.Vals) {
			return fmt.Sprintf("tree row %d: %v vs %v", i, x, y)
		}
		for j := range x.Vals {
			if x.Vals[j] != y.Vals[j] {
				return fmt.Sprintf("tree row %d value %d: %v vs %v", i, j, x.Vals[j], y.Vals[j])
			}
		}
	}
	if len(a.Funcs) != len(b.Funcs) {
		return fmt.Sprintf("%d vs %d functions", len(a.Funcs), len(b.Funcs))
	}
	for i := range a.Funcs {
		if a.Funcs[i] != b.Funcs[i] {
			return fmt.Sprintf("function %d: %v vs %v", i, a.Funcs[i], b.Funcs[i])
		}
	}
	if fmt.Sprint(a.Types) != fmt.Sprint(b.Types) {
		return fmt.Sprintf("sample types %v vs %v", a.Types, b.Types)
	}
	if fmt.Sprint(a.ValuesAgg) != fmt.Sprint(b.ValuesAgg) {
		return fmt.Sprintf("values_agg %v vs %v", a.ValuesAgg, b.ValuesAgg)
	}
	if a.Type != b.Type || a.PeriodType != b.PeriodType || a.PeriodUnit != b.PeriodUnit {
		return "type/period differ"
	}
	return ""
}

// ---- (c)(d): a flame graph -----------------------------------------------------------------------------------------

type bar struct {
	x, total, self int64
	name, path     string
}

// checkFlame decodes the level layout and compares it with the reference trie of sample type j (want holds the sums
// of the inputs per path).  hasNoLines: a frame without line info may carry any placeholder name.
func (c *checker) checkFlame(f *flame, want trie, j int, hasNoLines bool, where string) {
	if len(f.Levels) == 0 {
		c.viol("flame_no_levels", "%s: no levels", where)
		return
	}
	l0 := f.Levels[0]
	var wantRoot int64
	for path, n := range want {
		if !strings.Contains(path, sep) {
			wantRoot += n.Total[j]
		}
	}
	if len(l0) != 4 || l0[0] != 0 || l0[2] != 0 {
		c.viol("flame_level0_shape", "%s: level 0 is %v, want one bar [0,total,0,0]", where, l0)
		return
	}
	if l0[1] != wantRoot {
		c.viol("flame_root_total_not_sum_of_inputs", "%s: level 0 total %d, the inputs' root totals sum to %d", where, l0[1], wantRoot)
	}
	if f.Total != l0[1] {
		c.viol("flame_total_field_mismatch", "%s: Flamegraph.Total %d, level 0 bar %d", where, f.Total, l0[1])
	}
	if int(l0[3]) >= len(f.Names) || f.Names[l0[3]] != "total" {
		c.viol("flame_root_name", "%s: level 0 bar is not named total", where)
	}
	prev := []bar{{0, l0[1], 0, "total", ""}}
	got := trie{}
	for k := 1; k < len(f.Levels); k++ {
		v := f.Levels[k]
		if len(v)%4 != 0 {
			c.viol("flame_level_shape", "%s: level %d has %d values", where, k, len(v))
			return
		}
		var cur []bar
		var x int64
		for i := 0; i+3 < len(v); i += 4 {
			if v[i] < 0 {
				c.viol("flame_sibling_overlap", "%s: level %d bar %d starts %d before the end of the previous bar", where, k, i/4, -v[i])
			}
			x += v[i]
			b := bar{x: x, total: v[i+1], self: v[i+2]}
			x += b.total
			if v[i+3] < 0 || int(v[i+3]) >= len(f.Names) {
				c.viol("flame_name_index_out_of_range", "%s: level %d bar %d name index %d of %d", where, k, i/4, v[i+3], len(f.Names))
				b.name = "?"
			} else {
				b.name = f.Names[v[i+3]]
			}
			if !pushedName[b.name] {
				if hasNoLines && b.name != "total" {
					b.name = noLines
				} else {
					c.viol("flame_name_not_pushed", "%s: level %d bar %d is named %q which is no pushed function name", where, k, i/4, b.name)
				}
			}
			if b.total < 0 || b.self < 0 || b.self > b.total {
				c.viol("flame_bar_values", "%s: level %d bar %q total %d self %d", where, k, b.name, b.total, b.self)
			}
			// parent: a bar of the level above that contains [x, x+total)
			pi := -1
			for q := range prev {
				pb := &prev[q]
				if pb.x <= b.x && b.x+b.total <= pb.x+pb.total && (b.total == 0 || pb.total > 0) {
					pi = q
					if b.total > 0 {
						break
					}
				}
			}
			if pi < 0 {
				c.viol("flame_bar_outside_parent", "%s: level %d bar %q [%d,%d) lies inside no bar of level %d %s", where, k, b.name, b.x, b.x+b.total, k-1, barsBrief(prev))
			} else if b.total > 0 {
				b.path = b.name
				if prev[pi].path != "" {
					b.path = prev[pi].path + sep + b.name
				}
				n := got[b.path]
				if n == nil {
					n = &refNode{Self: []int64{0}, Total: []int64{0}}
					got[b.path] = n
				}
				n.Self[0] += b.self
				n.Total[0] += b.total
			}
			cur = append(cur, b)
		}
		prev = cur
	}
	// (c) totals are the sums of the inputs, path by path (zero-weight nodes carry no information and are not compared)
	var paths []string
	for path := range want {
		paths = append(paths, path)
	}
	sort.Strings(paths)
	for _, path := range paths {
		w := want[path]
		if w.Total[j] == 0 {
			continue
		}
		g := got[path]
		switch {
		case g == nil:
			c.viol("flame_path_missing", "%s: path %s (total %d) is not in the flame graph; graph has {%s}", where, show(path), w.Total[j], got)
		case g.Total[0] != w.Total[j]:
			c.viol("flame_total_not_sum_of_inputs", "%s: path %s total %d, inputs sum to %d", where, show(path), g.Total[0], w.Total[j])
		case g.Self[0] != w.Self[j]:
			c.viol("flame_self_not_sum_of_inputs", "%s: path %s self %d, inputs sum to %d", where, show(path), g.Self[0], w.Self[j])
		}
	}
	for path, g := range got {
		if w := want[path]; w == nil || w.Total[j] == 0 {
			c.viol("flame_path_unexpected", "%s: flame graph has path %s (total %d) which no input has", where, show(path), g.Total[0])
		}
	}
}

func show(path string) string {
	if len(path) > 160 {
		return fmt.Sprintf("%s…(depth %d)", strings.ReplaceAll(path[:80], sep, ">"), strings.Count(path, sep)+1)
	}
	return strings.ReplaceAll(path, sep, ">")
}

func barsBrief(bs []bar) string {
	var p []string
	for _, b := range bs {
		p = append(p, fmt.Sprintf("%s[%d,%d)", b.name, b.x, b.x+b.total))
	}
	s := strings.Join(p, " ")
	if len(s) > 200 {
		s = s[:200] + "…"
	}
	return s
}

// truncatedAt returns the limit L (one of the numeric limits found in the anchored code) for which the stored tree is
// exactly the call trie of the samples with every stack cut to its L root-most frames, or 0.
func (c *checker) truncatedAt(p *Prof, got trie) int {
	maxd := 0
	for _, s := range p.Samples {
		if len(s.Stack) > maxd {
			maxd = len(s.Stack)
		}
	}
	for _, l := range depthLimits {
		if int(l) >= maxd {
			continue
		}
		cut := &Prof{NTypes: p.NTypes}
		for _, s := range p.Samples {
			st := s.Stack
			if len(st) > int(l) {
				st = st[len(st)-int(l):] // leaf first: the root-most frames are at the end
			}
			cut.Samples = append(cut.Samples, Smp{Stack: st, Vals: s.Vals})
		}
		if trieEqual(got, refTrie(cut, false, false)) {
			return int(l)
		}
	}
	return 0
}

// depthLimits is filled from the limit scan at start-up.
var depthLimits []int64
