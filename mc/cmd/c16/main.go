// Check C16: "Profile call trees conserve weight from ingest to flame graph".
//
// Bounded-exhaustive enumeration of pprof profiles built with github.com/google/pprof/profile, pushed through both
// exported profile parsers and the real ProcessRequest of the profile insert service (block encoded and decoded
// again), then through the reader's real tree merge and level layout (ProfService.MergeStackTraces over a scripted
// database/sql driver, and Tree.MergeTrie/BFS directly) for every ordered sequence of <= 3 profiles from a pool and
// every row order of small trees.  See NOTES.md.
package main

import (
	"encoding/json"
	"fmt"
	"hash/fnv"
	"os"
	"runtime"
	"runtime/pprof"
	"sort"
	"strconv"
	"strings"
	"sync"
	"time"

	pprofpkg "github.com/google/pprof/profile"
	wmodel "github.com/metrico/qryn/writer/model"

	"verif/mc/ev"
	"verif/mc/wkpool"
)

type replayDoc struct {
	Kind  string  `json:"kind"`              // "profile" | "merge" | "history"
	Hist  string  `json:"history,omitempty"` // "handover" | "retry"
	Via   int     `json:"via,omitempty"`
	Prof  *Prof   `json:"prof,omitempty"`
	Vias  int     `json:"vias,omitempty"`
	Perms bool    `json:"perms,omitempty"`
	Profs []*Prof `json:"profs,omitempty"`
}

func shortHash(s string) string {
	h := fnv.New64a()
	h.Write([]byte(s))
	return strconv.FormatUint(h.Sum64(), 36)
}

func allPerms(n int) [][]int {
	var out [][]int
	var rec func(cur []int, used int)
	rec = func(cur []int, used int) {
		if len(cur) == n {
			out = append(out, append([]int{}, cur...))
			return
		}
		for i := 0; i < n; i++ {
			if used&(1<<i) == 0 {
				rec(append(cur, i), used|1<<i)
			}
		}
	}
	rec(nil, 0)
	return out
}

// rowOrders: every permutation for <= 4 rows, otherwise identity, reverse, rotation by half, odd-even interleave.
func rowOrders(n int) (orders [][]int, exhaustive bool) {
	if n <= 4 {
		return allPerms(n), true
	}
	id := make([]int, n)
	rev := make([]int, n)
	rot := make([]int, n)
	var il []int
	for i := 0; i < n; i++ {
		id[i], rev[i], rot[i] = i, n-1-i, (i+n/2)%n
	}
	for i := 1; i < n; i += 2 {
		il = append(il, i)
	}
	for i := 0; i < n; i += 2 {
		il = append(il, i)
	}
	return [][]int{id, rev, rot, il}, false
}

func hasNoLineLoc(ps ...*Prof) bool {
	for _, p := range ps {
		if p.hasEmptyStack() {
			return true
		}
		for _, s := range p.Samples {
			for _, l := range s.Stack {
				if len(locLines[l]) == 0 {
					return true
				}
			}
		}
	}
	return false
}

// ingest = parse (binary, raw) + store; the checker receives every deviation.
func ingest(c *checker, p *Prof, where string) (*storedProf, trie) {
	pd, err := parse(p, viaBinaryRaw)
	if err != nil {
		c.res.Outcomes = append(c.res.Outcomes, "rejected")
		c.count("wellformed_profile_rejected")
		return nil, nil
	}
	return consume(c, p, pd, where)
}

// runHistory: state carried across requests.  "handover": A is parsed, B is parsed, and only then A's ProfileData
// (kept exactly as handed over) is consumed; "retry": A is parsed and consumed once (the INSERT "fails"), B is parsed
// and consumed, then the very same ProfileData of A is consumed again.  Both trees must be what they would be alone.
func runHistory(a, b *Prof, hist string, via int) *wkpool.CaseResult {
	// one P while the history runs: a sync.Pool hand-over (Put by one request, Get by the next) is deterministic
	defer runtime.GOMAXPROCS(runtime.GOMAXPROCS(1))
	c := newChecker(&replayDoc{Kind: "history", Profs: []*Prof{a, b}, Hist: hist, Via: via})
	c.res.Key = shortHash("history:" + hist + fmt.Sprint(via) + a.key() + "&" + b.key())
	pa, err := parse(a, via)
	c.res.RealTraces++
	if err != nil {
		c.res.Outcomes = append(c.res.Outcomes, "history:first_rejected")
		return c.res
	}
	snap, _ := json.Marshal(pa)
	if hist == "retry" {
		if _, _, errs := store(pa); errs != "" {
			c.viol("history_process_request_failed", "first attempt: %s", errs)
		}
	}
	pb, err := parse(b, via)
	c.res.RealTraces++
	if err != nil {
		c.res.Outcomes = append(c.res.Outcomes, "history:second_rejected")
		return c.res
	}
	consume(c, b, pb, "history "+hist+", second profile")
	if now, _ := json.Marshal(pa); string(now) != string(snap) {
		c.viol("handed_over_profile_changed_by_later_request", "history %s: the ProfileData handed over for the first profile changed after another profile was decoded (before %.200s… now %.200s…)", hist, snap, now)
	}
	consume(c, a, pa, "history "+hist+", first profile consumed after the second")
	for i := range c.res.Viols {
		if !strings.HasPrefix(c.res.Viols[i].Class, "handed_over") && !strings.HasPrefix(c.res.Viols[i].Class, "history_") {
			c.res.Viols[i].Class = "history_" + c.res.Viols[i].Class
		}
	}
	c.res.Outcomes = append(c.res.Outcomes, fmt.Sprintf("history:%s:via=%d:samples=%d then %d", hist, via, len(a.Samples), len(b.Samples)))
	return c.res
}

// consume = store + checks for an already parsed profile
func consume(c *checker, p *Prof, pd *wmodel.ProfileData, where string) (*storedProf, trie) {
	em := emitted(pd)
	st, types, errs := store(pd)
	if errs != "" {
		c.viol("process_request_failed", "%s: accepted profile cannot be turned into a block: %s", where, errs)
		return nil, nil
	}
	for name, typ := range types {
		want, ok := schemaProfiles[name]
		if !ok {
			c.viol("block_column_not_in_schema", "block column %s %s is not a column of profiles_input", name, typ)
		} else if strings.ReplaceAll(typ, " ", "") != want {
			c.viol("block_column_type_mismatch", "block column %s has type %s, schema says %s", name, typ, want)
		}
	}
	if d := storedEqual(em, st); d != "" {
		c.viol("stored_rows_differ_from_emitted", "%s: %s", where, d)
	}
	got := c.checkStoredTree(p, st, where)
	return st, got
}

func runProfile(p *Prof, vias int, perms bool) *wkpool.CaseResult {
	c := newChecker(&replayDoc{Kind: "profile", Prof: p, Vias: vias, Perms: perms})
	c.res.Key = shortHash(p.key())
	c.res.RealTraces = 1
	st, got := ingest(c, p, "profile")
	if st == nil {
		return c.res
	}
	if vias > 1 {
		// every parser entry point x every delivery of the same bytes (whole, 1 byte per Read, 7 bytes per Read, two
		// halves) must emit the same rows
		base, _ := parse(p, viaBinaryRaw)
		be := emitted(base)
		for _, via := range []int{viaBinaryRaw, viaBinaryGz, viaMultipart} {
			for _, seg := range []int{0, 1, 7, -1} {
				if via == viaBinaryRaw && seg == 0 {
					continue
				}
				pd, err := parse(p, via, seg)
				if err != nil {
					c.viol("parser_rejects_what_the_other_accepts", "parser %d, %d bytes per Read: %v", via, seg, err)
					continue
				}
				c.res.RealTraces++
				if d := storedEqual(be, emitted(pd)); d != "" {
					c.viol("parsers_disagree", "binary/octet-stream whole body vs parser %d with %d bytes per Read: %s", via, seg, d)
				}
			}
		}
	}
	// observation (the statement is about the tree): the stored pprof payload still is the pushed profile
	if pp, err := pprofpkg.ParseData([]byte(st.Payload)); err != nil {
		c.count("obs_stored_payload_unparsable")
	} else {
		ok := len(pp.Sample) == len(p.Samples)
		for j := 0; ok && j < p.NTypes; j++ {
			var sum int64
			for _, sm := range pp.Sample {
				sum += sm.Value[j]
			}
			ok = sum == p.sampleSum(j)
		}
		if !ok {
			c.count("obs_stored_payload_differs_from_pushed_profile")
		}
	}
	if got != nil {
		noLines := hasNoLineLoc(p)
		mdb := &mergeDB{profs: []*storedProf{st}}
		for j := 0; j < p.NTypes; j++ {
			rows, fns := pick(st, typeName(j)), fnsOf(st)
			var orders [][]int
			if perms {
				orders, _ = rowOrders(len(rows))
			} else {
				orders = [][]int{nil, revPerm(len(rows))}
			}
			for oi, o := range orders {
				fl := viaTree([][][]any{permute(rows, o)}, [][][]any{fns}, j)
				c.res.RealTraces++
				c.checkFlame(fl, got, j, noLines, fmt.Sprintf("single profile, %s, row order %d", typeName(j), oi))
			}
			if perms {
				fl, err := viaService(mdb, j)
				c.res.RealTraces++
				if err != nil {
					c.serviceFailed(err)
				} else {
					c.checkFlame(fl, got, j, noLines, "single profile via MergeStackTraces, "+typeName(j))
				}
			}
		}
	}
	roots := 0
	for _, r := range st.Tree {
		if r.Parent == 0 {
			roots++
		}
	}
	c.res.Outcomes = append(c.res.Outcomes, fmt.Sprintf("profile:types=%d:samples=%d:nodes=%d:roots=%d:functions=%d", p.NTypes, len(p.Samples), len(st.Tree), roots, len(st.Funcs)))
	return c.res
}

func hasLoc(ps []*Prof, loc int) bool {
	for _, p := range ps {
		for _, s := range p.Samples {
			for _, l := range s.Stack {
				if l == loc {
					return true
				}
			}
		}
	}
	return false
}

func anyEmptyStack(ps []*Prof) bool {
	for _, p := range ps {
		if p.hasEmptyStack() {
			return true
		}
	}
	return false
}

func revPerm(n int) []int {
	out := make([]int, n)
	for i := range out {
		out[i] = n - 1 - i
	}
	return out
}

type poolEntry struct {
	st  *storedProf
	got trie
}

var (
	poolMu    sync.Mutex
	poolCache = map[*Prof]*poolEntry{}
)

func runMerge(profs []*Prof, cache bool) *wkpool.CaseResult {
	c := newChecker(&replayDoc{Kind: "merge", Profs: profs})
	var keys []string
	for _, p := range profs {
		keys = append(keys, p.key())
	}
	c.res.Key = shortHash("merge:" + strings.Join(keys, "&"))
	var sts []*storedProf
	want := trie{}
	for i, p := range profs {
		var e *poolEntry
		if cache {
			poolMu.Lock()
			e = poolCache[p]
			poolMu.Unlock()
		}
		if e == nil {
			// deviations of the single profile are reported by phase 1; here only the stored tree is needed
			sub := newChecker(nil)
			st, got := ingest(sub, p, fmt.Sprintf("input %d", i))
			e = &poolEntry{st, got}
			if cache {
				poolMu.Lock()
				poolCache[p] = e
				poolMu.Unlock()
			}
		}
		if e.st == nil || e.got == nil {
			c.res.Outcomes = append(c.res.Outcomes, "merge:input_not_stored")
			return c.res
		}
		sts = append(sts, e.st)
		for path, n := range e.got {
			w := want[path]
			if w == nil {
				w = &refNode{Self: make([]int64, 2), Total: make([]int64, 2)}
				want[path] = w
			}
			for j := range n.Total {
				w.Self[j] += n.Self[j]
				w.Total[j] += n.Total[j]
			}
		}
	}
	noLines := hasNoLineLoc(profs...)
	nodes := 0
	mdb := &mergeDB{profs: sts} // one interpreter database per case, shared by both sample types and row orders
	for j := 0; j < 2; j++ {
		typ := typeName(j)
		// (i) what production does: ClickHouse aggregates, MergeStackTraces lays out
		agg := aggregate(sts, typ)
		nodes = len(agg)
		orders, exh := rowOrders(len(agg))
		if !exh {
			c.count("merged_trees_over_4_nodes_with_4_row_orders_only")
		} else {
			c.count("merged_trees_with_all_row_orders")
		}
		for oi, o := range orders {
			// the first two row orders go through the real service + SQL planning + database/sql; the remaining
			// permutations of the same aggregated rows go straight to MergeTrie/BFS (the only code that sees them)
			if oi < 2 {
				mdb.perm, mdb.revFns = o, oi%2 == 1
				fl, err := viaService(mdb, j)
				c.res.RealTraces++
				if err != nil {
					c.serviceFailed(err)
					continue
				}
				c.checkFlame(fl, want, j, noLines, fmt.Sprintf("MergeStackTraces %s, aggregated row order %d", typ, oi))
				continue
			}
			fl := viaTree([][][]any{permute(agg, o)}, [][][]any{uniqFns(sts)}, j)
			c.res.RealTraces++
			c.checkFlame(fl, want, j, noLines, fmt.Sprintf("MergeTrie of aggregated rows %s, row order %d", typ, oi))
		}
		// (ii) one MergeTrie call per profile, in the sequence order, rows as stored and reversed
		for rev := 0; rev < 2; rev++ {
			var batches, fns [][][]any
			for _, st := range sts {
				rows := pick(st, typ)
				if rev == 1 {
					rows = permute(rows, revPerm(len(rows)))
				}
				batches = append(batches, rows)
				fns = append(fns, fnsOf(st))
			}
			fl := viaTree(batches, fns, j)
			c.res.RealTraces++
			c.checkFlame(fl, want, j, noLines, fmt.Sprintf("MergeTrie per profile %s, rows reversed=%d", typ, rev))
		}
		// (iii) all rows of all profiles in one un-aggregated array (duplicated node ids inside one call)
		var cat [][]any
		for _, st := range sts {
			cat = append(cat, pick(st, typ)...)
		}
		corders, _ := rowOrders(len(cat))
		for oi, o := range corders {
			fl := viaTree([][][]any{permute(cat, o)}, [][][]any{uniqFns(sts)}, j)
			c.res.RealTraces++
			c.checkFlame(fl, want, j, noLines, fmt.Sprintf("MergeTrie concatenated %s, row order %d", typ, oi))
		}
	}
	// auxiliary observation (never a violation): the pprof payload merge of the same inputs
	sums, fail := payloadMerge(sts)
	switch {
	case strings.HasPrefix(fail, "panic"):
		c.count("aux_payload_merge_panics")
		c.count("aux_payload_merge_" + strings.ReplaceAll(fail, " ", "_"))
		if hasLoc(profs, 3) {
			c.count("aux_payload_merge_panics_with_location_without_lines")
		}
		if anyEmptyStack(profs) {
			c.count("aux_payload_merge_panics_with_frameless_sample")
		}
	case fail != "":
		c.count("aux_payload_merge_error")
	default:
		ok := len(sums) == 2
		for j := 0; ok && j < 2; j++ {
			var w int64
			for _, p := range profs {
				w += p.sampleSum(j)
			}
			ok = sums[j] == w
		}
		if ok {
			c.count("aux_payload_merge_sum_equals_inputs")
		} else {
			c.count("aux_payload_merge_sum_differs_from_inputs")
		}
	}
	c.res.Outcomes = append(c.res.Outcomes, fmt.Sprintf("merge:profiles=%d:merged_nodes=%d", len(profs), nodes))
	return c.res
}

func main() {
	os.Setenv("TZ", "UTC")
	r := ev.Start("C16", "model_checking", 70*time.Second, 15*time.Minute)
	sp := buildSpace(r.Thorough())
	depthLimits = sp.scan.InReach
	run := func(i int) *wkpool.CaseResult {
		if i < sp.p1 {
			for _, f := range sp.fams {
				if i < f.size {
					return runProfile(f.at(i), f.vias, f.perms)
				}
				i -= f.size
			}
		}
		i -= sp.p1
		if i < len(sp.deep) {
			return runProfile(sp.deep[i], 3, false)
		}
		i -= len(sp.deep)
		if i >= sp.nPoolSeqs+len(sp.deepSeqs) {
			h := sp.hist[i-sp.nPoolSeqs-len(sp.deepSeqs)]
			return runHistory(h.a, h.b, h.hist, h.via)
		}
		if i >= sp.nPoolSeqs {
			return runMerge(sp.deepSeqs[i-sp.nPoolSeqs], true)
		}
		seq := sp.seqAt(i)
		var profs []*Prof
		for _, k := range seq {
			profs = append(profs, sp.pool[k])
		}
		return runMerge(profs, true)
	}
	if b := os.Getenv("VERIF_BENCH"); b != "" {
		var from, to int
		fmt.Sscanf(b, "%d:%d", &from, &to)
		if pf := os.Getenv("VERIF_CPUPROFILE"); pf != "" {
			f, _ := os.Create(pf)
			pprof.StartCPUProfile(f)
			defer pprof.StopCPUProfile()
		}
		if f, err := os.OpenFile(os.DevNull, os.O_WRONLY, 0); err == nil {
			so := os.Stdout
			os.Stdout = f
			defer func() { os.Stdout = so }()
		}
		t0 := time.Now()
		for i := from; i < to && i < sp.total; i++ {
			run(i)
		}
		fmt.Fprintf(os.Stderr, "bench %d..%d: %v (%v/case) p1=%d total=%d\n", from, to, time.Since(t0), time.Since(t0)/time.Duration(to-from), sp.p1, sp.total)
		return
	}
	if wkpool.IsWorker() {
		if f, err := os.OpenFile(os.DevNull, os.O_WRONLY, 0); err == nil {
			os.Stdout = f // the reader prints every SQL text it runs
		}
		wkpool.Worker(sp.total, run)
		return
	}
	r.Rule = "phase 1: every multiset of <=3 samples over a stack alphabet (all stacks of depth 1-3 over 3 functions incl. recursion and shared " +
		"frames, plus stacks through a location without lines, a 2-line (inlined) location, and the empty stack) x every assignment of values {0,1,5} " +
		"per sample and sample type (1-2 types), pushed through the exported parsers (binary raw; for the k<=2 families also binary gzip and multipart), " +
		"ProcessRequest, block decode; phase 2: every ordered sequence of 1-3 profiles from a fixed pool (= every multiset in every merge order) merged " +
		"(a) by the real MergeStackTraces whose SQL text is executed by mc/chsim over the stored rows, (b) one MergeTrie per profile, (c) one MergeTrie over the concatenated rows, " +
		"each with every row permutation when <=4 rows (4 fixed orders otherwise). Distinct = hash of the profile model / of the sequence."
	r.Assumptions = []string{
		"the statement MergeStackTraces sends is executed by the ClickHouse-subset interpreter mc/chsim over the stored profiles_input rows and the tables derived from them by the schema's materialized views (fingerprint and time-window selection included); chsim's reading of arrayFirst/arrayMap/ARRAY JOIN/GROUP BY/groupArray/groupUniqArrayArray is the trusted base; the order of groupArray/groupUniqArrayArray results is unspecified, so the returned arrays are additionally permuted; a statement chsim cannot evaluate ends the run with exit 2 (no verdict)",
		"node ids (55-bit city hash of parent, function, depth) do not collide inside the enumerated space",
		"for a location with several lines the statement does not say whether inlined callers become frames: both the one-frame-per-location trie and the fully expanded trie are accepted",
		"zero-weight nodes carry no information: their presence in the flame graph is not required, only that they nest",
	}
	if r.Replay != "" {
		raw, err := os.ReadFile(r.Replay)
		if err != nil {
			ev.Fatal("replay: %v", err)
		}
		var doc struct {
			Replay replayDoc `json:"replay"`
		}
		if err := json.Unmarshal(raw, &doc); err != nil {
			ev.Fatal("replay: %v", err)
		}
		var res *wkpool.CaseResult
		so := os.Stdout
		if f, err := os.OpenFile(os.DevNull, os.O_WRONLY, 0); err == nil {
			os.Stdout = f // the reader prints every SQL text it runs
		}
		defer func() { os.Stdout = so }()
		switch doc.Replay.Kind {
		case "profile":
			res = runProfile(doc.Replay.Prof, doc.Replay.Vias, doc.Replay.Perms)
		case "merge":
			res = runMerge(doc.Replay.Profs, false)
		case "history":
			res = runHistory(doc.Replay.Profs[0], doc.Replay.Profs[1], doc.Replay.Hist, doc.Replay.Via)
		default:
			ev.Fatal("replay: unknown kind %q", doc.Replay.Kind)
		}
		os.Stdout = so
		r.AddEval(1)
		r.States, r.Transitions = 1, res.RealTraces
		r.TracesValidated = res.RealTraces
		r.Distinct(res.Key)
		for _, o := range res.Outcomes {
			r.Outcome(o)
			fmt.Println("outcome:", o)
		}
		for k, v := range res.Counters {
			fmt.Printf("observation: %s=%d\n", k, v)
		}
		for _, v := range res.Viols {
			if v.Class == harnessClass {
				ev.Fatal("%s", v.What)
			}
			r.Violate(v.Class, v.What, doc.Replay)
		}
		r.Finish()
	}

	// samples: fixed indices, rendered by the parent (deterministic)
	off := 0
	for _, f := range sp.fams {
		r.Sample(map[string]any{"family": f.name, "index": off + f.size/3, "profile": f.at(f.size / 3)})
		off += f.size
	}
	if len(sp.deep) > 0 {
		d := sp.deep[len(sp.deep)/2]
		r.Sample(map[string]any{"family": "boundary-depth", "stack_depth": len(d.Samples[0].Stack), "stack_pattern_leaf_first": d.Samples[0].Stack[:6], "second_sample": d.Samples[1]})
	}
	for _, k := range []int{len(sp.pool) + 7, len(sp.pool)*len(sp.pool) + len(sp.pool) + 1234} {
		var ps []*Prof
		for _, x := range sp.seqAt(k) {
			ps = append(ps, sp.pool[x])
		}
		r.Sample(map[string]any{"merge_sequence": sp.seqAt(k), "profiles": ps})
	}
	counters := map[string]int64{}
	var harnessErrs []string
	nHarness := 0
	sink := wkpool.Sink{
		Stats: func(s *wkpool.Stats) {
			r.AddEval(s.Evals)
			r.TracesValidated += s.Traces
			for _, k := range s.Keys {
				r.Distinct(k)
			}
			for k, v := range s.Outcomes {
				for i := int64(0); i < v; i++ {
					r.Outcome(k)
				}
			}
			for k, v := range s.Counters {
				counters[k] += v
			}
		},
		Violation: func(v *wkpool.Viol) {
			if v.Class == harnessClass {
				// the machinery could not evaluate something: never a verdict
				if len(harnessErrs) < 5 {
					harnessErrs = append(harnessErrs, fmt.Sprintf("case %d: %s", v.Idx, v.What))
				}
				nHarness++
				return
			}
			var rep any
			json.Unmarshal(v.Replay, &rep)
			r.Violate(v.Class, v.What, rep)
		},
		Crash: func(idx int, tail string) {
			r.Violate("process_death", fmt.Sprintf("case %d kills the process (3/3 re-runs): %s", idx, firstLines(tail, 6)), map[string]any{"index": idx})
		},
		Flaky: func(idx int, tail string) { counters["flaky_worker_deaths"]++ },
		Cap:   func(why string) { r.Cap(why) },
	}
	workers := runtime.NumCPU()
	if workers > 16 {
		workers = 16
	}
	if err := wkpool.Parent(sp.total, wkpool.Options{Workers: workers, Deadline: r.Deadline, Args: os.Args[1:], Env: []string{"TZ=UTC"}, MemKB: 4 << 20}, sink); err != nil {
		ev.Fatal("%v", err)
	}
	if nHarness > 0 {
		ev.Fatal("%d cases could not be evaluated by the machinery (no verdict); first ones: %s", nHarness, strings.Join(harnessErrs, " || "))
	}
	r.States = r.Evaluations
	r.Transitions = r.TracesValidated
	r.Extra["cases_in_space"] = sp.total
	r.Extra["space"] = sp.describe()
	r.Extra["numeric_limits_in_anchored_code"] = sp.scan
	keys := make([]string, 0, len(counters))
	for k := range counters {
		keys = append(keys, k)
	}
	sort.Strings(keys)
	obs := map[string]int64{}
	for _, k := range keys {
		obs[k] = counters[k]
	}
	r.Extra["observations"] = obs
	r.Extra["maxSelf_probe"] = maxSelfProbe()
	r.Explanation = "states = profiles / merge sequences enumerated; transitions = executions of real code (parser runs, MergeStackTraces calls, MergeTrie+BFS runs)"
	r.Finish()
}

func firstLines(s string, n int) string {
	lines := strings.Split(strings.TrimSpace(s), "\n")
	if len(lines) > n {
		lines = lines[:n]
	}
	return strings.Join(lines, " | ")
}
