package main

// Value-level model of a pprof profile and the reference call trie computed from it.

import (
	"bytes"
	"fmt"
	"sort"
	"strings"

	"github.com/google/pprof/profile"
)

// Fixed tables shared by every enumerated profile.
var (
	funcNames = []string{"main", "a.b/c", "λ.fn"}
	// lines of each location: function indices, innermost (inlined callee) first.  L3 has no line info, L4 is
	// "a.b/c inlined into main".
	locLines = [][]int{{0}, {1}, {2}, {}, {1, 0}}
	// sample types; the profile uses the first NTypes of them
	sampleTypes = [][2]string{{"samples", "count"}, {"cpu", "nanoseconds"}}
)

const (
	noLines   = "<no line info>"
	periodTyp = "cpu"
	periodUnt = "nanoseconds"
	profType  = "process_cpu" // what the writer derives from period type "cpu"
)

// Smp is one sample: stack of location indices (leaf first, as in pprof) and one value per sample type.
type Smp struct {
	Stack []int   `json:"stack"`
	Vals  []int64 `json:"vals"`
}

// Prof is one profile.
type Prof struct {
	NTypes  int   `json:"ntypes"`
	Samples []Smp `json:"samples"`
}

func typeName(j int) string { return sampleTypes[j][0] + ":" + sampleTypes[j][1] }

func (p *Prof) key() string {
	var sb strings.Builder
	fmt.Fprintf(&sb, "%d", p.NTypes)
	for _, s := range p.Samples {
		fmt.Fprintf(&sb, "|%v=%v", s.Stack, s.Vals)
	}
	return sb.String()
}

// build renders the model as a github.com/google/pprof/profile.Profile.
func (p *Prof) build() *profile.Profile {
	pp := &profile.Profile{
		PeriodType:    &profile.ValueType{Type: periodTyp, Unit: periodUnt},
		Period:        10000000,
		TimeNanos:     1700000000000000000,
		DurationNanos: 10000000000,
	}
	for j := 0; j < p.NTypes; j++ {
		pp.SampleType = append(pp.SampleType, &profile.ValueType{Type: sampleTypes[j][0], Unit: sampleTypes[j][1]})
	}
	m := &profile.Mapping{ID: 1, Start: 0x1000, Limit: 0x9000, File: "/bin/app", HasFunctions: true}
	pp.Mapping = []*profile.Mapping{m}
	// only what the samples reference goes into the tables, as a real profiler would write it
	usedLoc := map[int]bool{}
	usedFn := map[int]bool{}
	for _, s := range p.Samples {
		for _, li := range s.Stack {
			usedLoc[li] = true
			for _, f := range locLines[li] {
				usedFn[f] = true
			}
		}
	}
	fns := map[int]*profile.Function{}
	for i, n := range funcNames {
		if usedFn[i] {
			f := &profile.Function{ID: uint64(i + 1), Name: n, SystemName: n, Filename: "f.go", StartLine: int64(10 * (i + 1))}
			fns[i] = f
			pp.Function = append(pp.Function, f)
		}
	}
	locs := map[int]*profile.Location{}
	for i, lines := range locLines {
		if !usedLoc[i] {
			continue
		}
		l := &profile.Location{ID: uint64(i + 1), Mapping: m, Address: uint64(0x1000 + 16*i)}
		for k, f := range lines {
			l.Line = append(l.Line, profile.Line{Function: fns[f], Line: int64(100*i + k)})
		}
		locs[i] = l
		pp.Location = append(pp.Location, l)
	}
	for _, s := range p.Samples {
		smp := &profile.Sample{Value: append([]int64{}, s.Vals...)}
		for _, li := range s.Stack {
			smp.Location = append(smp.Location, locs[li])
		}
		pp.Sample = append(pp.Sample, smp)
	}
	return pp
}

func (p *Prof) encode(gz bool) ([]byte, error) {
	var buf bytes.Buffer
	pp := p.build()
	var err error
	if gz {
		err = pp.Write(&buf)
	} else {
		err = pp.WriteUncompressed(&buf)
	}
	return buf.Bytes(), err
}

// ---- reference trie -------------------------------------------------------------------------------------------------

type refNode struct {
	Self, Total []int64
}

// trie maps a path of frame names (root first, joined by \x00) to its weights.
type trie map[string]*refNode

const sep = "\x00"

// frames returns the frame names of a stack, root first.  expand=false: one frame per location named after its
// innermost line (what a tree of locations looks like); expand=true: inlined callers become frames of their own.
func frames(stack []int, expand bool) []string {
	var out []string
	for i := len(stack) - 1; i >= 0; i-- {
		lines := locLines[stack[i]]
		switch {
		case len(lines) == 0:
			out = append(out, noLines)
		case !expand:
			out = append(out, funcNames[lines[0]])
		default:
			for k := len(lines) - 1; k >= 0; k-- {
				out = append(out, funcNames[lines[k]])
			}
		}
	}
	return out
}

// A sample without frames still has to be somewhere if the root totals are to add up to the sample values: the
// reference puts it under one placeholder root frame (dropEmpty=true leaves it out: the deviant rule of D62).
func (t trie) add(p *Prof, expand bool, ntypes int, dropEmpty bool) {
	for _, s := range p.Samples {
		fr := frames(s.Stack, expand)
		if len(fr) == 0 && !dropEmpty {
			fr = []string{noLines}
		}
		path := ""
		for i, f := range fr {
			if i > 0 {
				path += sep
			}
			path += f
			n := t[path]
			if n == nil {
				n = &refNode{Self: make([]int64, ntypes), Total: make([]int64, ntypes)}
				t[path] = n
			}
			for j := 0; j < p.NTypes && j < ntypes; j++ {
				n.Total[j] += s.Vals[j]
				if i == len(fr)-1 {
					n.Self[j] += s.Vals[j]
				}
			}
		}
	}
}

func refTrie(p *Prof, expand, dropEmpty bool) trie {
	t := trie{}
	t.add(p, expand, p.NTypes, dropEmpty)
	return t
}

func (p *Prof) hasMultiLine() bool {
	for _, s := range p.Samples {
		for _, l := range s.Stack {
			if len(locLines[l]) > 1 {
				return true
			}
		}
	}
	return false
}

func (p *Prof) hasEmptyStack() bool {
	for _, s := range p.Samples {
		if len(s.Stack) == 0 {
			return true
		}
	}
	return false
}

func (p *Prof) sampleSum(j int) int64 {
	var n int64
	for _, s := range p.Samples {
		n += s.Vals[j]
	}
	return n
}

// emptyStackSum is the weight carried by samples that have no frame at all.
func (p *Prof) emptyStackSum(j int) int64 {
	var n int64
	for _, s := range p.Samples {
		if len(s.Stack) == 0 {
			n += s.Vals[j]
		}
	}
	return n
}

func (t trie) String() string {
	keys := make([]string, 0, len(t))
	for k := range t {
		keys = append(keys, k)
	}
	sort.Strings(keys)
	var sb strings.Builder
	for _, k := range keys {
		if sb.Len() > 600 {
			fmt.Fprintf(&sb, "… (%d nodes)", len(keys))
			break
		}
		name := k
		if len(name) > 120 {
			name = fmt.Sprintf("%s…(depth %d)", name[:60], strings.Count(name, sep)+1)
		}
		fmt.Fprintf(&sb, "%s self=%v total=%v; ", strings.ReplaceAll(name, sep, ">"), t[k].Self, t[k].Total)
	}
	return sb.String()
}

func allZero(n *refNode) bool {
	for i := range n.Total {
		if n.Total[i] != 0 || n.Self[i] != 0 {
			return false
		}
	}
	return true
}

// trieEqual compares two tries path by path; nodes without any weight carry no information and are ignored.
func trieEqual(a, b trie) bool {
	for k, x := range a {
		y := b[k]
		if y == nil {
			if !allZero(x) {
				return false
			}
			continue
		}
		if !eqI64(x.Self, y.Self) || !eqI64(x.Total, y.Total) {
			return false
		}
	}
	for k, y := range b {
		if a[k] == nil && !allZero(y) {
			return false
		}
	}
	return true
}

func eqI64(a, b []int64) bool {
	if len(a) != len(b) {
		return false
	}
	for i := range a {
		if a[i] != b[i] {
			return false
		}
	}
	return true
}
