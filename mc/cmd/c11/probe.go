package main

import (
	"fmt"
	"os"
	"time"

	"github.com/metrico/qryn/reader/logql/logql_transpiler_v2/shared"
	traceql_parser "github.com/metrico/qryn/reader/traceql/parser"
	"github.com/metrico/qryn/reader/traceql/transpiler/clickhouse_transpiler"
	sql "github.com/metrico/qryn/reader/utils/sql_select"

	"verif/mc/chsim"
)

func main() {
	db := chsim.NewDB()
	T0 := int64(1700000000_000000000)
	tag := func(kv ...string) chsim.Array {
		var a chsim.Array
		for i := 0; i+1 < len(kv); i += 2 {
			a = append(a, chsim.Tuple{kv[i], kv[i+1]})
		}
		return a
	}
	rows := [][]chsim.Value{
		{"", "00000000000000000000000000000001", "0000000000000011", "", "op1", T0 + 100, int64(2e9), "svc", int8(2), "", tag("name", "op1", "service.name", "svc", "a", "5", "b", "x")},
		{"", "00000000000000000000000000000001", "0000000000000012", "", "op2", T0 + 200, int64(5e8), "svc", int8(2), "", tag("name", "op2", "service.name", "svc", "a", "foo")},
		{"", "00000000000000000000000000000002", "0000000000000021", "", "op1", T0 + 300, int64(1e9), "svc", int8(2), "", tag("name", "op1", "service.name", "svc", "b", "7")},
	}
	db.AddQrynTable("traces_input", rows)
	db.MaterializeAll()
	for _, q := range os.Args[1:] {
		fmt.Println("=== ", q)
		script, err := traceql_parser.Parse(q)
		if err != nil {
			fmt.Println("parse error:", err)
			continue
		}
		fmt.Println("parsed:", script.String())
		for _, mode := range []string{"plan", "eval", "tags", "values"} {
			var pl shared.SQLRequestPlanner
			switch mode {
			case "plan":
				pl, err = clickhouse_transpiler.Plan(script)
			case "eval":
				pl, err = clickhouse_transpiler.PlanEval(script)
			case "tags":
				pl, err = clickhouse_transpiler.PlanTagsV2(script)
			case "values":
				pl, err = clickhouse_transpiler.PlanValuesV2(script, "a")
			}
			if err != nil {
				fmt.Println(mode, "plan error:", err)
				continue
			}
			ctx := &shared.PlannerContext{From: time.Unix(0, T0), To: time.Unix(0, T0+1000), Limit: 20,
				TracesAttrsTable: "tempo_traces_attrs_gin", TracesAttrsDistTable: "tempo_traces_attrs_gin", TracesTable: "tempo_traces", TracesDistTable: "tempo_traces",
				TracesKVTable: "tempo_traces_kv", TracesKVDistTable: "tempo_traces_kv"}
			sel, err := pl.Process(ctx)
			if err != nil {
				fmt.Println(mode, "process error:", err)
				continue
			}
			s, err := sel.String(&sql.Ctx{Params: map[string]sql.SQLObject{}, Result: map[string]sql.SQLObject{}})
			if err != nil {
				fmt.Println(mode, "string error:", err)
				continue
			}
			fmt.Println(mode, "SQL:", s)
			res, err := db.Query(s)
			if err != nil {
				fmt.Printf("%s chsim error: %T %v\n", mode, err, err)
				continue
			}
			fmt.Println(mode, "cols:", res.Cols)
			for _, r := range res.Rows {
				fmt.Print("   ")
				for _, v := range r {
					fmt.Print(chsim.Format(v), " | ")
				}
				fmt.Println()
			}
		}
	}
}
