package main

import (
	"context"
	"database/sql"
	"database/sql/driver"
	"errors"
	"fmt"
	"io"
	"strings"
	"sync"

	"verif/mc/chsim"
)

// The database seam: a database/sql driver whose every query is executed by chsim on the current case's tables.
// The real request processors (TraceQLComplexityEvaluator, TraceQLRequestProcessor, ComplexRequestProcessor,
// SimpleTagsV2RequestProcessor) run unchanged on top of it and scan the rows as they would scan clickhouse-go's.

type stmtRecord struct {
	SQL  string
	Kind string // "complexity" | "search" | "tags" | other
	Err  error
	Rows int
}

type seam struct {
	mu  sync.Mutex
	db  *chsim.DB
	log []stmtRecord
	// forceComplexity > 0: the answer to the complexity statement is replaced by this number (the statement is
	// still parsed and executed), which selects the complex path with ceil(n/10M) portions.
	forceComplexity int64
	sqlDB           *sql.DB
}

var stmtCache sync.Map // sql text -> *chsim.Stmt | error

func parseSQL(text string) (*chsim.Stmt, error) {
	if c, ok := stmtCache.Load(text); ok {
		if st, ok := c.(*chsim.Stmt); ok {
			return st, nil
		}
		return nil, c.(error)
	}
	st, err := chsim.Parse(text)
	if err != nil {
		stmtCache.Store(text, err)
		return nil, err
	}
	stmtCache.Store(text, st)
	return st, nil
}

func stmtKind(q string) string {
	switch {
	case strings.HasPrefix(q, "WITH pre_final as"):
		return "complexity"
	case strings.Contains(q, "pre_select_tags"):
		return "tags"
	case strings.Contains(q, "index_grouped"):
		return "search"
	case strings.Contains(q, "tempo_traces_kv"):
		return "all_tags"
	}
	return "other"
}

func (s *seam) run(query string) ([]string, [][]driver.Value, error) {
	rec := stmtRecord{SQL: query, Kind: stmtKind(query)}
	defer func() {
		s.mu.Lock()
		s.log = append(s.log, rec)
		s.mu.Unlock()
	}()
	st, err := parseSQL(query)
	if err != nil {
		rec.Err = err
		return nil, nil, err
	}
	res, err := s.db.Exec(st)
	if err != nil {
		rec.Err = err
		return nil, nil, err
	}
	rows := make([][]driver.Value, len(res.Rows))
	for i, r := range res.Rows {
		out := make([]driver.Value, len(r))
		for j, v := range r {
			cv, err := toDriver(v)
			if err != nil {
				rec.Err = fmt.Errorf("c11 seam: column %s: %w", res.Cols[j], err)
				return nil, nil, rec.Err
			}
			out[j] = cv
		}
		rows[i] = out
	}
	if rec.Kind == "complexity" && s.forceComplexity > 0 {
		rows = [][]driver.Value{{s.forceComplexity}}
	}
	rec.Rows = len(rows)
	return res.Cols, rows, nil
}

var errSeamValue = errors.New("value has no clickhouse-go representation in this seam")

// toDriver converts a chsim value to what clickhouse-go's std driver hands to database/sql for that type.
func toDriver(v chsim.Value) (driver.Value, error) {
	switch x := v.(type) {
	case nil:
		return nil, nil
	case string, int64, uint64, float64:
		return x, nil
	case chsim.Array:
		if len(x) == 0 {
			return []string{}, nil
		}
		switch x[0].(type) {
		case string:
			out := make([]string, len(x))
			for i, e := range x {
				s, ok := e.(string)
				if !ok {
					return nil, errSeamValue
				}
				out[i] = s
			}
			return out, nil
		case int64:
			out := make([]int64, len(x))
			for i, e := range x {
				n, ok := e.(int64)
				if !ok {
					return nil, errSeamValue
				}
				out[i] = n
			}
			return out, nil
		}
	}
	return nil, fmt.Errorf("%w: %s", errSeamValue, chsim.Format(v))
}

// ---- database/sql driver ----

type seamConnector struct{ s *seam }

func (c seamConnector) Connect(context.Context) (driver.Conn, error) { return &seamConn{c.s}, nil }
func (c seamConnector) Driver() driver.Driver                        { return seamDriver{} }

type seamDriver struct{}

func (seamDriver) Open(string) (driver.Conn, error) {
	return nil, errors.New("c11 seam: use the connector")
}

type seamConn struct{ s *seam }

func (c *seamConn) Prepare(string) (driver.Stmt, error) {
	return nil, errors.New("c11 seam: no Prepare")
}
func (c *seamConn) Close() error              { return nil }
func (c *seamConn) Begin() (driver.Tx, error) { return nil, errors.New("c11 seam: no transactions") }
func (c *seamConn) QueryContext(ctx context.Context, q string, _ []driver.NamedValue) (driver.Rows, error) {
	cols, rows, err := c.s.run(q)
	if err != nil {
		return nil, err
	}
	return &seamRows{cols: cols, rows: rows}, nil
}

type seamRows struct {
	cols []string
	rows [][]driver.Value
	i    int
}

func (r *seamRows) Columns() []string { return r.cols }
func (r *seamRows) Close() error      { return nil }
func (r *seamRows) Next(dest []driver.Value) error {
	if r.i >= len(r.rows) {
		return io.EOF
	}
	copy(dest, r.rows[r.i])
	r.i++
	return nil
}

func newSeam() *seam {
	s := &seam{}
	s.sqlDB = sql.OpenDB(seamConnector{s})
	s.sqlDB.SetMaxIdleConns(4)
	return s
}

func (s *seam) reset(db *chsim.DB, forceComplexity int64) {
	s.mu.Lock()
	s.db = db
	s.log = s.log[:0]
	s.forceComplexity = forceComplexity
	s.mu.Unlock()
}

func (s *seam) records() []stmtRecord {
	s.mu.Lock()
	defer s.mu.Unlock()
	return append([]stmtRecord(nil), s.log...)
}

// model.ISqlxDB
func (s *seam) GetName() string { return "c11" }
func (s *seam) QueryCtx(ctx context.Context, query string, args ...any) (*sql.Rows, error) {
	return s.sqlDB.QueryContext(ctx, query, args...)
}
func (s *seam) ExecCtx(ctx context.Context, query string, args ...any) error {
	return errors.New("c11 seam: no Exec")
}
func (s *seam) Conn(ctx context.Context) (*sql.Conn, error) { return s.sqlDB.Conn(ctx) }
func (s *seam) Begin() (*sql.Tx, error)                     { return nil, errors.New("c11 seam: no transactions") }
func (s *seam) Close()                                      {}
