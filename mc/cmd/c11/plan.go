package main

import (
	"fmt"
	"strings"
	"sync"
)

const universalLimit = 1000 // not binding on A / B (the limit family runs on the small databases)

func universalByName(name string) *Database {
	switch name {
	case "A":
		return universalA()
	case "B":
		return universalB("B", poolB, 3, 0xB000)
	case "B2":
		return universalB("B2", poolB, 2, 0xC000)
	case "K":
		return universalK(true)
	case "Kq":
		return universalK(false)
	}
	return nil
}

// smallWindows: windows of the small-database family, relative to the time slots 1..n of the database.
func smallWindows(nSlots int) []Window {
	slot := func(k int) int64 { return T0 + int64(k)*slotNS }
	last := nSlots
	return []Window{
		{"all", slot(0), slot(last + 1)},              // every span strictly inside
		{"from_on_2", slot(2), slot(last + 1)},        // From exactly on slot 2: slot 1 outside
		{"to_on_last", slot(0), slot(last)},           // To exactly on the newest span
		{"inner", slot(1) + 1, slot(last) - 1},        // oldest and newest span strictly outside
		{"before_midnight", slot(-5), slot(last + 1)}, // From on the previous UTC day
	}
}

func plan(cfg genConfig) (map[string]*Database, []caseSpec) {
	dbs := map[string]*Database{}
	var cases []caseSpec
	add := func(fam string, q *Query, db *Database, w Window, limit int64, mode, api string) {
		cases = append(cases, caseSpec{Query: q, Text: q.String(), DB: db.Name, Window: w.Name,
			Params: Params{From: w.From, To: w.To, Limit: limit}, Mode: mode, API: api, Family: fam})
	}
	A, B, B2 := universalByName("A"), universalByName("B"), universalByName("B2")
	for _, d := range []*Database{A, B, B2} {
		dbs[d.Name] = d
	}
	uwAll := universalWindows()
	uw := uwAll[:2]

	n2, n3 := 12, 6
	if cfg.thorough {
		n2, n3 = 20, 12
	}
	one, two, three, flat := treeQueries(coreTerms(n2), coreTerms(n3))
	for _, q := range one {
		for _, w := range uwAll {
			add("term", q, A, w, universalLimit, "simple", "search")
		}
		add("term", q, B2, uw[1], universalLimit, "simple", "search")
		add("term", q, B2, uw[0], universalLimit, "simple", "tags")
		add("term", q, B2, uw[1], universalLimit, "simple", "values")
	}
	for _, q := range two {
		for _, w := range uw {
			add("tree2", q, A, w, universalLimit, "simple", "search")
		}
		add("tree2", q, B2, uw[0], universalLimit, "simple", "search")
		if cfg.thorough {
			add("tree2", q, B2, uw[1], universalLimit, "simple", "search")
			add("tree2", q, B2, uw[1], 2, "simple", "tags")
		}
	}
	for _, q := range three {
		add("tree3", q, A, uw[0], universalLimit, "simple", "search")
		if cfg.thorough {
			add("tree3", q, B2, uw[1], universalLimit, "simple", "search")
		}
	}
	for _, q := range flat {
		add("flat3", q, A, uw[0], universalLimit, "simple", "search")
		if cfg.thorough {
			add("flat3", q, B2, uw[1], universalLimit, "simple", "search")
		}
	}
	for _, q := range aggQueries(cfg.thorough) {
		for _, w := range uw {
			add("agg", q, B, w, universalLimit, "simple", "search")
		}
		if cfg.thorough {
			add("agg", q, B, uw[1], universalLimit, "complex2", "search")
		}
	}
	c2, c3 := chainQueries(cfg.thorough)
	for _, q := range c2 {
		for _, w := range uw {
			add("chain2", q, B, w, universalLimit, "simple", "search")
		}
		if cfg.thorough {
			add("chain2", q, B, uw[1], universalLimit, "complex3", "search")
		}
	}
	for _, q := range c3 {
		add("chain3", q, B, uw[1], universalLimit, "simple", "search")
	}
	// attribute names colliding with intrinsics / special-cased words, every scope spelling, every position
	K := universalByName("Kq")
	if cfg.thorough {
		K = universalByName("K")
	}
	dbs[K.Name] = K
	for _, kc := range keywordCases(cfg.thorough) {
		mode := kc.mode
		if mode == "" {
			mode = "simple"
		}
		add("keyword", kc.q, K, uwAll[0], universalLimit, mode, kc.api)
		cases[len(cases)-1].Key = kc.key
	}
	// all tags / all values (no query): only statement validity is judged
	// (the planner's nil-script path is reached through PlanTagsV2(nil), not through text)

	// limit / ordering / window edges / complex path on the small family
	scfg := smallCfg{maxTraces: 3, maxSpans: 2, maxTotal: 4, idSets: idSetsFor(2)[:1]}
	if cfg.thorough {
		scfg = smallCfg{maxTraces: 3, maxSpans: 2, maxTotal: 5, idSets: idSetsFor(2)[:1]}
	}
	smalls := buildSmall(scfg)
	for _, d := range smalls {
		dbs[d.Name] = d
	}
	lq := limitQueries(cfg.thorough)
	for _, d := range smalls {
		ws := smallWindows(d.spans)
		for _, q := range lq {
			for wi, w := range ws {
				for _, lim := range []int64{1, 2, 20} {
					if !cfg.thorough && wi >= 3 && lim != 1 {
						continue
					}
					add("limit", q, d, w, lim, "simple", "search")
				}
			}
		}
	}
	// complex path: every assignment of the traces to the hash portions
	pcfg := smallCfg{maxTraces: 3, maxSpans: 2, maxTotal: 4, idSets: idSetsFor(2)}
	if !cfg.thorough {
		pcfg.maxTotal = 3
	}
	for _, d := range buildSmall(pcfg) {
		if _, dup := dbs[d.Name]; !dup {
			dbs[d.Name] = d
		}
		d = dbs[d.Name]
		ws := smallWindows(d.spans)
		for _, q := range lq {
			for _, w := range ws[:3] {
				for _, lim := range []int64{1, 2, 20} {
					if lim == 20 && !cfg.thorough {
						continue // never reached on <= 3 traces: the window start cannot move (thorough keeps it as a control)
					}
					add("portions", q, d, w, lim, "complex2", "search")
				}
			}
		}
	}
	if cfg.thorough {
		p3 := smallCfg{maxTraces: 3, maxSpans: 2, maxTotal: 4, idSets: idSetsFor(3)}
		for _, d := range buildSmall(p3) {
			d.Name = "P3" + d.Name
			dbs[d.Name] = d
			ws := smallWindows(d.spans)
			for _, q := range lq[:6] {
				for _, w := range ws[:2] {
					for _, lim := range []int64{1, 2} {
						add("portions", q, d, w, lim, "complex3", "search")
					}
				}
			}
		}
	}
	return dbs, cases
}

// buildSmall builds the family in parallel (each database runs the three materialized views in chsim).
func buildSmall(cfg smallCfg) []*Database {
	specs := smallSpecs(cfg)
	out := make([]*Database, len(specs))
	var wg sync.WaitGroup
	ch := make(chan int)
	for w := 0; w < 16; w++ {
		wg.Add(1)
		go func() {
			defer wg.Done()
			for i := range ch {
				out[i] = newDatabase(specs[i].name, specs[i].traces)
			}
		}()
	}
	for i := range specs {
		ch <- i
	}
	close(ch)
	wg.Wait()
	return out
}

// ---------------------------------------------------------------------------------------------------------
// a tiny reader of TraceQL text for ad-hoc runs (C11_QUERY): terms, && / ||, parentheses, aggregators, chains.
// Precedence as in the TraceQL definition (&& over ||).  Not used by the enumeration.

func parseQueryText(text string) (*Query, error) {
	p := &qparser{s: text}
	q := &Query{}
	for {
		s, err := p.selector()
		if err != nil {
			return nil, err
		}
		q.Sels = append(q.Sels, *s)
		p.ws()
		if p.eof() {
			return q, nil
		}
		if p.take("&&") {
			q.Ops = append(q.Ops, "&&")
		} else if p.take("||") {
			q.Ops = append(q.Ops, "||")
		} else {
			return nil, fmt.Errorf("unexpected %q", p.s[p.i:])
		}
	}
}

type qparser struct {
	s string
	i int
}

func (p *qparser) ws() {
	for p.i < len(p.s) && (p.s[p.i] == ' ' || p.s[p.i] == '\t') {
		p.i++
	}
}
func (p *qparser) eof() bool { return p.i >= len(p.s) }
func (p *qparser) take(t string) bool {
	p.ws()
	if strings.HasPrefix(p.s[p.i:], t) {
		p.i += len(t)
		return true
	}
	return false
}
func (p *qparser) word(stop string) string {
	p.ws()
	st := p.i
	if p.i < len(p.s) && p.s[p.i] == '"' {
		p.i++
		for p.i < len(p.s) && p.s[p.i] != '"' {
			if p.s[p.i] == '\\' {
				p.i++
			}
			p.i++
		}
		p.i++
		return p.s[st:p.i]
	}
	for p.i < len(p.s) && !strings.ContainsRune(stop, rune(p.s[p.i])) {
		p.i++
	}
	return p.s[st:p.i]
}

func (p *qparser) selector() (*Selector, error) {
	if !p.take("{") {
		return nil, fmt.Errorf("expected { at %d", p.i)
	}
	s := &Selector{}
	if !p.take("}") {
		paren := false
		e, err := p.orExpr(&paren)
		if err != nil {
			return nil, err
		}
		s.Expr = e
		s.Flat = !paren
		if !p.take("}") {
			return nil, fmt.Errorf("expected } at %d", p.i)
		}
	}
	p.ws()
	if strings.HasPrefix(p.s[p.i:], "|") && !strings.HasPrefix(p.s[p.i:], "||") {
		p.i++
		fn := p.word(" (")
		p.take("(")
		attr := p.word(")")
		p.take(")")
		var cmp string
		for _, c := range []string{"!=", ">=", "<=", "=", ">", "<"} {
			if p.take(c) {
				cmp = c
				break
			}
		}
		num := p.word(" &|")
		s.Agg = &Agg{fn, attr, cmp, num}
	}
	return s, nil
}

func (p *qparser) orExpr(paren *bool) (*Expr, error) {
	l, err := p.andExpr(paren)
	if err != nil {
		return nil, err
	}
	for p.take("||") {
		r, err := p.andExpr(paren)
		if err != nil {
			return nil, err
		}
		l = or(l, r)
	}
	return l, nil
}

func (p *qparser) andExpr(paren *bool) (*Expr, error) {
	l, err := p.atom(paren)
	if err != nil {
		return nil, err
	}
	for p.take("&&") {
		r, err := p.atom(paren)
		if err != nil {
			return nil, err
		}
		l = and(l, r)
	}
	return l, nil
}

func (p *qparser) atom(paren *bool) (*Expr, error) {
	if p.take("(") {
		*paren = true
		e, err := p.orExpr(paren)
		if err != nil {
			return nil, err
		}
		if !p.take(")") {
			return nil, fmt.Errorf("expected ) at %d", p.i)
		}
		return e, nil
	}
	label := p.word(" =!<>~")
	var op string
	for _, c := range []string{"!=", "=~", "!~", ">=", "<=", "=", ">", "<"} {
		if p.take(c) {
			op = c
			break
		}
	}
	if op == "" {
		return nil, fmt.Errorf("expected operator at %d", p.i)
	}
	val := p.word(" )}&|")
	return leaf(label, op, val), nil
}
