package main

import (
	"fmt"
	"regexp"
	"sort"
	"strconv"
	"strings"
	"sync"
	"time"
)

// ---------------------------------------------------------------------------------------------------------
// query model: what the enumerator builds, what is rendered to TraceQL text, what the oracle evaluates

// Term is one comparison.  Val is the literal exactly as written in the query: "foo" (with quotes), 5, 7.5, 1s.
type Term struct {
	Label string `json:"label"` // .a span.a resource.a name duration
	Op    string `json:"op"`    // = != =~ !~ > >= < <=
	Val   string `json:"val"`
}

func (t Term) String() string { return t.Label + " " + t.Op + " " + t.Val }

// Expr is a boolean tree over terms.
type Expr struct {
	Term *Term  `json:"term,omitempty"`
	Op   string `json:"op,omitempty"` // "&&" | "||"
	L    *Expr  `json:"l,omitempty"`
	R    *Expr  `json:"r,omitempty"`
}

// Agg is `| fn(attr) cmp num[unit]`.
type Agg struct {
	Fn   string `json:"fn"`
	Attr string `json:"attr"`
	Cmp  string `json:"cmp"`
	Num  string `json:"num"` // number with optional unit, as written
}

func (a Agg) String() string { return "| " + a.Fn + "(" + a.Attr + ") " + a.Cmp + " " + a.Num }

// Selector is `{expr} [| agg]`.  Flat selectors are rendered WITHOUT parentheses; their tree is the one the TraceQL
// definition assigns to that text (&& binds tighter than ||, both left-associative) - see flatTree.
type Selector struct {
	Expr *Expr `json:"expr,omitempty"` // nil = {}
	Flat bool  `json:"flat,omitempty"`
	Agg  *Agg  `json:"agg,omitempty"`
}

// Query is a chain of selectors.  Ops[i] joins Sels[i] and Sels[i+1]; && binds tighter than || (TraceQL spanset
// operators), both associative.
type Query struct {
	Sels []Selector `json:"sels"`
	Ops  []string   `json:"ops,omitempty"`
}

func leaf(label, op, val string) *Expr { return &Expr{Term: &Term{label, op, val}} }
func and(a, b *Expr) *Expr             { return &Expr{Op: "&&", L: a, R: b} }
func or(a, b *Expr) *Expr              { return &Expr{Op: "||", L: a, R: b} }

// renderParen: every non-leaf operand is parenthesised.
func (e *Expr) renderParen() string {
	if e.Term != nil {
		return e.Term.String()
	}
	l, r := e.L.renderParen(), e.R.renderParen()
	if e.L.Term == nil {
		l = "(" + l + ")"
	}
	if e.R.Term == nil {
		r = "(" + r + ")"
	}
	return l + " " + e.Op + " " + r
}

// renderFlat: in-order, no parentheses.
func (e *Expr) renderFlat() string {
	if e.Term != nil {
		return e.Term.String()
	}
	return e.L.renderFlat() + " " + e.Op + " " + e.R.renderFlat()
}

// flatTree builds the tree the TraceQL definition gives to `t0 op0 t1 op1 t2 ...` written without parentheses:
// && binds tighter than ||; equal operators associate to the left.
func flatTree(terms []*Expr, ops []string) *Expr {
	// split on || first
	var groups []*Expr
	cur := terms[0]
	for i, op := range ops {
		if op == "&&" {
			cur = and(cur, terms[i+1])
		} else {
			groups = append(groups, cur)
			cur = terms[i+1]
		}
	}
	groups = append(groups, cur)
	res := groups[0]
	for _, g := range groups[1:] {
		res = or(res, g)
	}
	return res
}

func (e *Expr) terms(out *[]*Term) {
	if e == nil {
		return
	}
	if e.Term != nil {
		*out = append(*out, e.Term)
		return
	}
	e.L.terms(out)
	e.R.terms(out)
}

func (e *Expr) ops(out map[string]bool) {
	if e == nil || e.Term != nil {
		return
	}
	out[e.Op] = true
	e.L.ops(out)
	e.R.ops(out)
}

func (s Selector) String() string {
	body := ""
	if s.Expr != nil {
		if s.Flat {
			body = s.Expr.renderFlat()
		} else {
			body = s.Expr.renderParen()
		}
	}
	res := "{" + body + "}"
	if s.Agg != nil {
		res += " " + s.Agg.String()
	}
	return res
}

func (q *Query) String() string {
	var b strings.Builder
	for i, s := range q.Sels {
		if i > 0 {
			b.WriteString(" " + q.Ops[i-1] + " ")
		}
		b.WriteString(s.String())
	}
	return b.String()
}

// termKind classifies a term for shapes and for the applicability of deviant rules.
func termKind(t *Term) string {
	switch {
	case t.Label == "duration":
		return "dur"
	case t.Label == "name":
		return "name"
	}
	if strings.HasPrefix(t.Val, `"`) || strings.HasPrefix(t.Val, "`") {
		return "str"
	}
	return "num"
}

// scopedKey: the attribute a scoped spelling addresses.  `.x`, `span.x`, `resource.x` ALWAYS mean the attribute x
// (exactly one scope prefix is stripped: `span.resource.q` is the span attribute "resource.q"); a bare word is never
// an attribute.
func scopedKey(label string) (string, bool) {
	switch {
	case strings.HasPrefix(label, "span."):
		return label[5:], true
	case strings.HasPrefix(label, "resource."):
		return label[9:], true
	case strings.HasPrefix(label, "."):
		return label[1:], true
	}
	return "", false
}

// strippedTwice mirrors AttrConditionPlanner.aggregator (documented deviant rule AggStripAll): the three scope
// prefixes are stripped one after the other, so `span.resource.q` ends up as "q".
func strippedTwice(label string) string {
	label = strings.TrimPrefix(label, "span.")
	label = strings.TrimPrefix(label, "resource.")
	label = strings.TrimPrefix(label, ".")
	return label
}

// errNoReference: a bare word that is neither `duration` nor `name`.  The planner is expected to reject it; if it does
// not, the statement gives the script no meaning and nothing is compared.
var errNoReference = fmt.Errorf("bare word is not an intrinsic this implementation stores")

// Shape is the query with literals abstracted away (used to list unsupported shapes and unexplained disagreements).
func (q *Query) Shape() string {
	var b strings.Builder
	for i, s := range q.Sels {
		if i > 0 {
			b.WriteString(" " + q.Ops[i-1] + " ")
		}
		b.WriteString("{")
		if s.Expr != nil {
			b.WriteString(shapeExpr(s.Expr, s.Flat))
		}
		b.WriteString("}")
		if s.Agg != nil {
			at := "attr"
			if s.Agg.Attr == "" {
				at = ""
			} else if s.Agg.Attr == "duration" {
				at = "duration"
			}
			unit := strings.TrimLeft(s.Agg.Num, "-0123456789.")
			b.WriteString(" | " + s.Agg.Fn + "(" + at + ") " + s.Agg.Cmp + " N" + unit)
		}
	}
	return b.String()
}

func shapeExpr(e *Expr, flat bool) string {
	if e.Term != nil {
		k := termKind(e.Term)
		if k == "dur" {
			unit := strings.TrimLeft(e.Term.Val, "-0123456789.")
			return "duration " + e.Term.Op + " N" + unit
		}
		lit := "N"
		if isStringLit(e.Term.Val) {
			lit = "S"
		} else if strings.TrimLeft(e.Term.Val, "-0123456789.") != "" {
			lit = "T"
		}
		pre := "attr"
		if k == "name" {
			pre = "name"
		}
		return pre + " " + e.Term.Op + " " + lit
	}
	l, r := shapeExpr(e.L, flat), shapeExpr(e.R, flat)
	if !flat {
		if e.L.Term == nil {
			l = "(" + l + ")"
		}
		if e.R.Term == nil {
			r = "(" + r + ")"
		}
	}
	return l + " " + e.Op + " " + r
}

// ---------------------------------------------------------------------------------------------------------
// data model

type Span struct {
	SID   int               `json:"sid"` // span number inside the trace; span_id = %016x
	TS    int64             `json:"ts"`  // ns
	Dur   int64             `json:"dur"` // ns
	Name  string            `json:"name"`
	Attrs map[string]string `json:"attrs,omitempty"`
}

type Trace struct {
	TID   uint64 `json:"tid"` // trace_id = %032x
	Spans []Span `json:"spans"`
}

func traceHex(t uint64) string { return fmt.Sprintf("%032x", t) }
func spanHex(s int) string     { return fmt.Sprintf("%016x", s) }

func (t *Trace) start() int64 {
	m := t.Spans[0].TS
	for _, s := range t.Spans {
		if s.TS < m {
			m = s.TS
		}
	}
	return m
}
func (t *Trace) last() int64 {
	m := t.Spans[0].TS
	for _, s := range t.Spans {
		if s.TS > m {
			m = s.TS
		}
	}
	return m
}

type Params struct {
	From  int64 `json:"from"` // ns
	To    int64 `json:"to"`
	Limit int64 `json:"limit"`
}

// ---------------------------------------------------------------------------------------------------------
// the oracle: a direct evaluator of the property statement, with switchable documented deviant rules

// Rules are the documented deviant rules (DESIGN §7): each one replaces one rule of the statement by what the
// implementation is known to do.  The zero value is the statement itself.
type Rules struct {
	RightAssoc      bool // flat `a && b || c` read as a && (b || c) (the parser's right recursion) instead of (a && b) || c
	WhereGate       bool // a span is only seen if one of its index rows satisfies an attribute/name term (or carries the aggregated attribute): spans satisfying only duration terms are invisible
	SpanIntersect   bool // `{A} && {B}` = row-wise INTERSECT of (trace, span, newest matched timestamp of the trace in that selector)
	ChainDrop       bool // chains of >= 3 selectors: planComplex loses operands (see implChain)
	EmptyEdge       bool // `{}`: candidate traces are picked with timestamp <= To (and LIMIT) before spans are read with timestamp < To
	PortionFrom     bool // complex path: after a full portion the window start moves to the earliest start of the traces found so far
	AggNullAsZero   bool // (not used on the unchanged tree) an aggregate over no numeric value is 0
	RegexAnchored   bool // informational: =~ / !~ fully anchored
	NeqMatchMissing bool // informational: != and !~ hold for a missing attribute
	NameShared      bool // the span name lives in the attribute index under key "name": bare `name` and the attribute `name` (.name span.name resource.name) both read both values
	AggStripAll     bool // the aggregator argument loses ALL leading scope prefixes one after the other (`span.resource.q` -> "q") while a condition strips one
}

// edge variants of the window: the statement says "inside the time window" and does not fix the edges
type edges struct{ fromExcl, toIncl bool }

type selResult struct {
	spans map[uint64]map[int]bool // trace -> matched span ids
	maxTS map[uint64]int64        // trace -> newest matched timestamp
}

type oracle struct {
	rules    Rules
	portions int                   // > 0: complex path with that many portions (only used with rules.PortionFrom)
	hashMod  func(uint64, int) int // portion of a trace id
}

var reCache sync.Map // pattern -> *regexp.Regexp

func compileRe(p string, anchored bool) (*regexp.Regexp, error) {
	key := p
	if anchored {
		key = "\x00" + p
	}
	if r, ok := reCache.Load(key); ok {
		return r.(*regexp.Regexp), nil
	}
	src := "(?s)" + p
	if anchored {
		src = "(?s)^(?:" + p + ")$"
	}
	r, err := regexp.Compile(src)
	if err != nil {
		return nil, err
	}
	reCache.Store(key, r)
	return r, nil
}

// unquote reads a TraceQL string literal: "..." with backslash escapes, or `...` taken literally (only \` is an escape).
func unquote(lit string) (string, error) {
	if strings.HasPrefix(lit, `"`) {
		return strconv.Unquote(lit)
	}
	if strings.HasPrefix(lit, "`") && strings.HasSuffix(lit, "`") && len(lit) >= 2 {
		return strings.ReplaceAll(lit[1:len(lit)-1], "\\`", "`"), nil
	}
	return "", fmt.Errorf("not a string literal: %s", lit)
}

func isStringLit(v string) bool { return strings.HasPrefix(v, `"`) || strings.HasPrefix(v, "`") }

func cmpNum(op string, a, b float64) bool {
	switch op {
	case "=":
		return a == b
	case "!=":
		return a != b
	case ">":
		return a > b
	case ">=":
		return a >= b
	case "<":
		return a < b
	case "<=":
		return a <= b
	}
	return false
}

// numeric reports the numeric value of a stored attribute value.  The data alphabet only holds plain decimal
// numbers and words, so "numeric" is unambiguous.
func numeric(v string) (float64, bool) {
	f, err := strconv.ParseFloat(v, 64)
	if err != nil {
		return 0, false
	}
	return f, true
}

// attrValues: the values of attribute key on the span.  Every stored span carries service.name (the writer adds it);
// the attribute `name`, if the span has one, is distinct from the span's name.
func (s *Span) attrValues(key string) []string {
	if v, ok := s.Attrs[key]; ok {
		return []string{v}
	}
	if key == "service.name" {
		return []string{"svc"}
	}
	return nil
}

// hasKeyRow: does the attribute index hold a row with this key for the span (the span's name is stored under key
// "name")?
func (s *Span) hasKeyRow(key string) bool {
	return key == "name" || len(s.attrValues(key)) > 0
}

// labelValues: what a label reads on a span.  Scoped spellings read the attribute, the bare word `name` reads the
// span's name.  Documented deviant rule NameShared: the span name is stored in the attribute index under key "name",
// so the intrinsic and the attribute `name` both see both values.
func (o *oracle) labelValues(label string, s *Span) ([]string, error) {
	if key, ok := scopedKey(label); ok {
		vals := s.attrValues(key)
		if key == "name" && o.rules.NameShared {
			vals = append([]string{s.Name}, vals...)
		}
		return vals, nil
	}
	if label == "name" {
		vals := []string{s.Name}
		if o.rules.NameShared {
			vals = append(vals, s.attrValues("name")...)
		}
		return vals, nil
	}
	return nil, errNoReference
}

// termHolds: does the span satisfy the term?  A condition on an attribute the span does not have is not
// satisfied (for every operator, as in Tempo); a numeric comparison holds only for numeric values.
func (o *oracle) termHolds(t *Term, s *Span) (bool, error) {
	if t.Label == "duration" {
		d, err := time.ParseDuration(t.Val)
		if err != nil {
			return false, err
		}
		return cmpNum(t.Op, float64(s.Dur), float64(d.Nanoseconds())), nil
	}
	vals, err := o.labelValues(t.Label, s)
	if err != nil {
		return false, err
	}
	has := len(vals) > 0
	if isStringLit(t.Val) {
		lit, err := unquote(t.Val)
		if err != nil {
			return false, err
		}
		if !has {
			return o.rules.NeqMatchMissing && (t.Op == "!=" || t.Op == "!~"), nil
		}
		var re *regexp.Regexp
		if t.Op == "=~" || t.Op == "!~" {
			if re, err = compileRe(lit, o.rules.RegexAnchored); err != nil {
				return false, err
			}
		}
		for _, v := range vals {
			switch t.Op {
			case "=":
				if v == lit {
					return true, nil
				}
			case "!=":
				if v != lit {
					return true, nil
				}
			case "=~", "!~":
				if re.MatchString(v) == (t.Op == "=~") {
					return true, nil
				}
			default:
				return false, fmt.Errorf("oracle: operator %s on a string", t.Op)
			}
		}
		return false, nil
	}
	f, err := strconv.ParseFloat(t.Val, 64)
	if err != nil {
		return false, err
	}
	if !has {
		return o.rules.NeqMatchMissing && t.Op == "!=", nil
	}
	for _, v := range vals {
		if n, isNum := numeric(v); isNum && cmpNum(t.Op, n, f) {
			return true, nil
		}
	}
	return false, nil
}

func (o *oracle) exprHolds(e *Expr, s *Span) (bool, error) {
	if e.Term != nil {
		return o.termHolds(e.Term, s)
	}
	l, err := o.exprHolds(e.L, s)
	if err != nil {
		return false, err
	}
	r, err := o.exprHolds(e.R, s)
	if err != nil {
		return false, err
	}
	if e.Op == "&&" {
		return l && r, nil
	}
	return l || r, nil
}

// rightAssoc rebuilds a flat selector's tree the way a right-recursive grammar reads the text.
func rightAssoc(e *Expr) *Expr {
	var ts []*Expr
	var ops []string
	var walk func(e *Expr)
	walk = func(e *Expr) {
		if e.Term != nil {
			ts = append(ts, e)
			return
		}
		walk(e.L)
		ops = append(ops, e.Op)
		walk(e.R)
	}
	walk(e)
	res := ts[len(ts)-1]
	for i := len(ts) - 2; i >= 0; i-- {
		res = &Expr{Op: ops[i], L: ts[i], R: res}
	}
	return res
}

func inWindow(ts int64, p Params, ed edges) bool {
	if ts < p.From || ts > p.To {
		return false
	}
	if ts == p.From && ed.fromExcl {
		return false
	}
	if ts == p.To && !ed.toIncl {
		return false
	}
	return true
}

// evalSelector: matched spans per trace, then the aggregate filter.
func (o *oracle) evalSelector(traces []Trace, sel *Selector, p Params, ed edges) (*selResult, error) {
	res := &selResult{spans: map[uint64]map[int]bool{}, maxTS: map[uint64]int64{}}
	expr := sel.Expr
	if expr != nil && sel.Flat && o.rules.RightAssoc {
		expr = rightAssoc(expr)
	}
	var gateKeys map[string]bool
	var gateTerms []*Term
	if o.rules.WhereGate && expr != nil {
		var ts []*Term
		expr.terms(&ts)
		for _, t := range ts {
			if t.Label != "duration" {
				gateTerms = append(gateTerms, t)
			}
		}
		gateKeys = map[string]bool{}
		if sel.Agg != nil && sel.Agg.Attr != "" && sel.Agg.Attr != "duration" {
			if k, ok := scopedKey(sel.Agg.Attr); ok {
				gateKeys[k] = true
			}
		}
	}
	for ti := range traces {
		tr := &traces[ti]
		var vals []float64 // aggregated values of the matched spans
		n := 0
		for si := range tr.Spans {
			s := &tr.Spans[si]
			if !inWindow(s.TS, p, ed) {
				continue
			}
			ok := true
			if expr != nil {
				var err error
				ok, err = o.exprHolds(expr, s)
				if err != nil {
					return nil, err
				}
				if ok && o.rules.WhereGate {
					visible := false
					for _, t := range gateTerms {
						h, err := o.termHolds(t, s)
						if err != nil {
							return nil, err
						}
						if h {
							visible = true
						}
					}
					for k := range gateKeys {
						if s.hasKeyRow(k) {
							visible = true
						}
					}
					ok = visible
				}
			}
			if !ok {
				continue
			}
			n++
			if res.spans[tr.TID] == nil {
				res.spans[tr.TID] = map[int]bool{}
			}
			res.spans[tr.TID][s.SID] = true
			if s.TS > res.maxTS[tr.TID] {
				res.maxTS[tr.TID] = s.TS
			}
			if sel.Agg != nil {
				switch {
				case sel.Agg.Attr == "duration":
					vals = append(vals, float64(s.Dur))
				case sel.Agg.Attr != "":
					label := sel.Agg.Attr
					if o.rules.AggStripAll {
						label = "." + strippedTwice(label)
					}
					avs, err := o.labelValues(label, s)
					if err != nil {
						return nil, err
					}
					// one value per span: the first numeric one (anyIf over the span's rows)
					for _, v := range avs {
						if f, isNum := numeric(v); isNum {
							vals = append(vals, f)
							break
						}
					}
				}
			}
		}
		if n == 0 || sel.Agg == nil {
			continue
		}
		keep, err := o.aggHolds(sel.Agg, n, vals)
		if err != nil {
			return nil, err
		}
		if !keep {
			delete(res.spans, tr.TID)
			delete(res.maxTS, tr.TID)
		}
	}
	return res, nil
}

// aggHolds: the aggregate filter of one trace.  n = matched spans, vals = numeric values of the aggregated
// attribute (or durations) on them.  An aggregate over no value is undefined: the trace does not pass.
func (o *oracle) aggHolds(a *Agg, n int, vals []float64) (bool, error) {
	var cmpVal float64
	if a.Attr == "duration" && a.Fn != "count" {
		d, err := time.ParseDuration(a.Num)
		if err != nil {
			return false, err
		}
		cmpVal = float64(d.Nanoseconds())
	} else {
		f, err := strconv.ParseFloat(a.Num, 64)
		if err != nil {
			return false, err
		}
		cmpVal = f
	}
	if a.Fn == "count" {
		return cmpNum(a.Cmp, float64(n), cmpVal), nil
	}
	if len(vals) == 0 {
		if o.rules.AggNullAsZero {
			return cmpNum(a.Cmp, 0, cmpVal), nil
		}
		return false, nil
	}
	var v float64
	switch a.Fn {
	case "sum", "avg":
		for _, x := range vals {
			v += x
		}
		if a.Fn == "avg" {
			v /= float64(len(vals))
		}
	case "min":
		v = vals[0]
		for _, x := range vals {
			if x < v {
				v = x
			}
		}
	case "max":
		v = vals[0]
		for _, x := range vals {
			if x > v {
				v = x
			}
		}
	default:
		return false, fmt.Errorf("oracle: aggregator %s", a.Fn)
	}
	return cmpNum(a.Cmp, v, cmpVal), nil
}

func unionSel(a, b *selResult) *selResult {
	res := &selResult{spans: map[uint64]map[int]bool{}, maxTS: map[uint64]int64{}}
	for _, x := range []*selResult{a, b} {
		for t, ss := range x.spans {
			if res.spans[t] == nil {
				res.spans[t] = map[int]bool{}
			}
			for s := range ss {
				res.spans[t][s] = true
			}
			if x.maxTS[t] > res.maxTS[t] {
				res.maxTS[t] = x.maxTS[t]
			}
		}
	}
	return res
}

// andSel: `&&` keeps the traces matched by both selectors (with the spans of both).
func andSel(a, b *selResult) *selResult {
	res := &selResult{spans: map[uint64]map[int]bool{}, maxTS: map[uint64]int64{}}
	for t, sa := range a.spans {
		sb, ok := b.spans[t]
		if !ok {
			continue
		}
		res.spans[t] = map[int]bool{}
		for s := range sa {
			res.spans[t][s] = true
		}
		for s := range sb {
			res.spans[t][s] = true
		}
		res.maxTS[t] = a.maxTS[t]
		if b.maxTS[t] > res.maxTS[t] {
			res.maxTS[t] = b.maxTS[t]
		}
	}
	return res
}

// intersectRows: the documented deviant `&&`: rows (trace, span, newest matched timestamp of the trace in the
// selector) present in both operands.
func intersectRows(a, b *selResult) *selResult {
	res := &selResult{spans: map[uint64]map[int]bool{}, maxTS: map[uint64]int64{}}
	for t, sa := range a.spans {
		sb, ok := b.spans[t]
		if !ok || a.maxTS[t] != b.maxTS[t] {
			continue
		}
		for s := range sa {
			if sb[s] {
				if res.spans[t] == nil {
					res.spans[t] = map[int]bool{}
				}
				res.spans[t][s] = true
				res.maxTS[t] = a.maxTS[t]
			}
		}
	}
	return res
}

// chainNode is a combination tree over selector indexes.
type chainNode struct {
	sel  int // leaf: selector index (op == "")
	op   string
	kids []*chainNode
}

// specChain: && binds tighter than ||.
func specChain(q *Query) *chainNode {
	var groups []*chainNode
	cur := &chainNode{sel: 0}
	for i, op := range q.Ops {
		next := &chainNode{sel: i + 1}
		if op == "&&" {
			if cur.op == "&&" {
				cur.kids = append(cur.kids, next)
			} else {
				cur = &chainNode{op: "&&", kids: []*chainNode{cur, next}}
			}
		} else {
			groups = append(groups, cur)
			cur = next
		}
	}
	groups = append(groups, cur)
	if len(groups) == 1 {
		return groups[0]
	}
	return &chainNode{op: "||", kids: groups}
}

// implChain mirrors clickhouse_transpiler.planner.planComplex (documented deviant rule ChainDrop): operands are
// attached to `current.operands()[0]`, which for the second && / for && after || is a plain selector whose addOp is
// a no-op, so the rest of the chain is lost.
func implChain(q *Query) *chainNode {
	type node = chainNode
	root := &node{op: "root"}
	addOp := func(cur *node, n *node) {
		switch cur.op {
		case "root":
			cur.kids = []*node{n}
		case "&&", "||":
			cur.kids = append(cur.kids, n)
		default: // simple selector: addOp does nothing
		}
	}
	var plan func(cur *node, i int)
	plan = func(cur *node, i int) {
		op := ""
		if i < len(q.Ops) {
			op = q.Ops[i]
		}
		switch op {
		case "":
			addOp(cur, &node{sel: i})
		case "&&":
			addOp(cur, &node{op: "&&", kids: []*node{{sel: i}}})
			var first *node
			if len(cur.kids) > 0 {
				first = cur.kids[0]
			} else {
				first = &node{sel: -1} // operands() of a simple selector is nil: the real code would panic (never reached: guarded below)
			}
			plan(first, i+1)
		case "||":
			addOp(cur, &node{sel: i})
			root.kids = []*node{{op: "||", kids: root.kids}}
			plan(root.kids[0], i+1)
		}
	}
	plan(root, 0)
	return root.kids[0]
}

func (o *oracle) evalChain(n *chainNode, sels []*selResult) *selResult {
	if n.op == "" {
		return sels[n.sel]
	}
	res := o.evalChain(n.kids[0], sels)
	for _, k := range n.kids[1:] {
		r := o.evalChain(k, sels)
		switch {
		case n.op == "||":
			res = unionSel(res, r)
		case o.rules.SpanIntersect:
			res = intersectRows(res, r)
		default:
			res = andSel(res, r)
		}
	}
	if n.op == "&&" && len(n.kids) == 1 && o.rules.SpanIntersect {
		res = intersectRows(res, res)
	}
	return res
}

// match evaluates the whole query over a set of traces for one window.
func (o *oracle) match(traces []Trace, q *Query, p Params, ed edges) (*selResult, error) {
	sels := make([]*selResult, len(q.Sels))
	for i := range q.Sels {
		r, err := o.evalSelector(traces, &q.Sels[i], p, ed)
		if err != nil {
			return nil, err
		}
		sels[i] = r
	}
	chain := specChain(q)
	if o.rules.ChainDrop {
		chain = implChain(q)
	}
	return o.evalChain(chain, sels), nil
}

// Expected is the oracle's answer before the limit: matched traces with their spans, plus the recency keys.
type Expected struct {
	M     *selResult
	Start map[uint64]int64 // earliest span of the trace (any span)
	Last  map[uint64]int64 // newest span of the trace (any span)
	MinTS map[uint64]int64 // oldest matched span
	// Fixed: the deviant rule itself fixes the returned set (limit already applied); the recency test is skipped
	Fixed bool
}

func (o *oracle) Eval(db *Database, q *Query, p Params, ed edges) (*Expected, error) {
	if o.rules.PortionFrom && o.portions > 0 {
		return o.evalPortions(db, q, p, ed)
	}
	m, fixed, err := o.matchLimited(db, db.Traces, q, p, ed)
	if err != nil {
		return nil, err
	}
	e := o.expected(db, m, p, ed)
	e.Fixed = fixed
	return e, nil
}

// matchLimited: the matched traces; fixed = the rule in force already applied the limit itself.
func (o *oracle) matchLimited(db *Database, traces []Trace, q *Query, p Params, ed edges) (*selResult, bool, error) {
	if o.rules.EmptyEdge && len(q.Sels) == 1 && q.Sels[0].Expr == nil {
		m, err := o.matchEmptyEdge(traces, q, p)
		return m, true, err
	}
	m, err := o.match(traces, q, p, ed)
	return m, false, err
}

func (o *oracle) expected(db *Database, m *selResult, p Params, ed edges) *Expected {
	e := &Expected{M: m, Start: map[uint64]int64{}, Last: map[uint64]int64{}, MinTS: map[uint64]int64{}}
	for ti := range db.Traces {
		tr := &db.Traces[ti]
		ss, ok := m.spans[tr.TID]
		if !ok {
			continue
		}
		e.Start[tr.TID] = tr.start()
		e.Last[tr.TID] = tr.last()
		first := true
		for _, s := range tr.Spans {
			if ss[s.SID] && (first || s.TS < e.MinTS[tr.TID]) {
				e.MinTS[tr.TID] = s.TS
				first = false
			}
		}
	}
	return e
}

// topByMax: the `limit` traces with the newest matched span (the implementation's index order).
func topByMax(m *selResult, limit int64) []uint64 {
	ids := make([]uint64, 0, len(m.spans))
	for t := range m.spans {
		ids = append(ids, t)
	}
	sort.Slice(ids, func(i, j int) bool {
		if m.maxTS[ids[i]] != m.maxTS[ids[j]] {
			return m.maxTS[ids[i]] > m.maxTS[ids[j]]
		}
		return ids[i] < ids[j]
	})
	if limit > 0 && int64(len(ids)) > limit {
		ids = ids[:limit]
	}
	return ids
}

// evalPortions mirrors ComplexRequestProcessor.Process (documented deviant rule PortionFrom): the index is read in
// `portions` hash slices of the trace ids; each iteration re-reads the traces found so far, and once `limit` traces
// are held the window start is moved to the earliest start of those traces (which may lie before or after the
// requested start).
func (o *oracle) evalPortions(db *Database, q *Query, p Params, ed edges) (*Expected, error) {
	attrless := len(q.Sels) == 1 && q.Sels[0].Expr == nil
	from := p.From
	var cached map[uint64]bool
	var m *selResult
	for i := 0; i < o.portions; i++ {
		var cand []Trace
		for _, tr := range db.Traces {
			if attrless || o.hashMod(tr.TID, o.portions) == i || cached[tr.TID] {
				cand = append(cand, tr)
			}
		}
		pp := p
		pp.From = from
		all, _, err := o.matchLimited(db, cand, q, pp, ed)
		if err != nil {
			return nil, err
		}
		keep := topByMax(all, p.Limit)
		m = &selResult{spans: map[uint64]map[int]bool{}, maxTS: map[uint64]int64{}}
		cached = map[uint64]bool{}
		var minStart int64
		for k, t := range keep {
			m.spans[t] = all.spans[t]
			m.maxTS[t] = all.maxTS[t]
			cached[t] = true
			st := db.byID[t].start()
			if k == 0 || st < minStart {
				minStart = st
			}
		}
		if int64(len(keep)) == p.Limit && len(keep) > 0 {
			from = minStart
		}
	}
	e := o.expected(db, m, p, ed)
	e.Fixed = true
	return e, nil
}

// matchEmptyEdge mirrors AttrlessConditionPlanner (documented deviant rule EmptyEdge): the `limit` candidate traces
// are chosen by `SELECT DISTINCT trace_id ... WHERE From <= ts <= To ORDER BY timestamp_ns DESC LIMIT n` - DISTINCT
// runs before ORDER BY, so each trace is ranked by its first stored row in that range (tempo_traces is ordered by
// (oid, trace_id, timestamp_ns): its oldest span there) - and their spans are then read with From <= ts < To: a trace
// whose only span in range sits exactly on To uses up a slot and vanishes.
func (o *oracle) matchEmptyEdge(traces []Trace, q *Query, p Params) (*selResult, error) {
	type cand struct {
		i  int
		ts int64
	}
	var cs []cand
	for i, tr := range traces {
		for _, s := range tr.Spans { // storage order
			if s.TS >= p.From && s.TS <= p.To {
				cs = append(cs, cand{i, s.TS})
				break
			}
		}
	}
	sort.SliceStable(cs, func(i, j int) bool { return cs[i].ts > cs[j].ts })
	if p.Limit > 0 && int64(len(cs)) > p.Limit {
		cs = cs[:p.Limit]
	}
	var sub []Trace
	for _, c := range cs {
		sub = append(sub, traces[c.i])
	}
	return o.match(sub, q, p, edges{})
}

// ---------------------------------------------------------------------------------------------------------
// comparison

// ImplTrace is one returned trace.
type ImplTrace struct {
	TID   string
	Spans []string
}

// accept: is the returned list an acceptable answer given the expected matches?  Trace set: a subset of the matched
// traces of size min(limit, |M|) that is a "most recent" prefix under at least one reading of recency (newest
// matched span, oldest matched span, trace start, newest span of the trace).  Span sets: exactly the matched spans.
// Returns "" or a description of the first difference, and whether only span sets differ.
func accept(impl []ImplTrace, e *Expected, p Params) (diff string, spansOnly bool) {
	got := map[string][]string{}
	for _, it := range impl {
		if _, dup := got[it.TID]; dup {
			return fmt.Sprintf("trace %s returned twice", short(it.TID)), false
		}
		got[it.TID] = it.Spans
	}
	want := map[string]uint64{}
	for t := range e.M.spans {
		want[traceHex(t)] = t
	}
	var extra, missing []string
	for t := range got {
		if _, ok := want[t]; !ok {
			extra = append(extra, short(t))
		}
	}
	sort.Strings(extra)
	if len(extra) > 0 {
		return fmt.Sprintf("returned traces %v are not described by the query (expected %s)", extra, describe(e)), false
	}
	n := int64(len(want))
	if p.Limit > 0 && n > p.Limit && !e.Fixed {
		n = p.Limit
	}
	if int64(len(got)) != n {
		for t := range want {
			if _, ok := got[t]; !ok {
				missing = append(missing, short(t))
			}
		}
		sort.Strings(missing)
		return fmt.Sprintf("returned %d traces, expected %d (limit %d); not returned: %v", len(got), n, p.Limit, missing), false
	}
	if int64(len(got)) < int64(len(want)) {
		// limit cut: the returned set must be a most-recent prefix under some reading of recency
		ok := false
		for _, key := range []map[uint64]int64{e.M.maxTS, e.MinTS, e.Start, e.Last} {
			var minIn, maxOut int64
			firstIn, firstOut := true, true
			for t, id := range want {
				k := key[id]
				if _, in := got[t]; in {
					if firstIn || k < minIn {
						minIn, firstIn = k, false
					}
				} else if firstOut || k > maxOut {
					maxOut, firstOut = k, false
				}
			}
			if firstOut || firstIn || minIn >= maxOut {
				ok = true
				break
			}
		}
		if !ok {
			var ids []string
			for t := range got {
				ids = append(ids, short(t))
			}
			sort.Strings(ids)
			return fmt.Sprintf("returned %v: not the %d most recent of the matched traces (%s)", ids, p.Limit, describe(e)), false
		}
	}
	// span sets
	var ids []string
	for t := range got {
		ids = append(ids, t)
	}
	sort.Strings(ids)
	for _, t := range ids {
		ws := e.M.spans[want[t]]
		gs := map[string]bool{}
		for _, s := range got[t] {
			gs[s] = true
		}
		same := len(gs) == len(ws) && len(got[t]) == len(ws)
		for s := range ws {
			if !gs[spanHex(s)] {
				same = false
			}
		}
		if !same {
			var w []string
			for s := range ws {
				w = append(w, fmt.Sprint(s))
			}
			sort.Strings(w)
			var g []string
			for _, s := range got[t] {
				g = append(g, strings.TrimLeft(s, "0"))
			}
			sort.Strings(g)
			return fmt.Sprintf("trace %s: returned spans %v, matched spans %v", short(t), g, w), true
		}
	}
	return "", false
}

func short(hex string) string {
	s := strings.TrimLeft(hex, "0")
	if s == "" {
		s = "0"
	}
	return "T" + s
}

func describe(e *Expected) string {
	var ids []string
	for t := range e.M.spans {
		ids = append(ids, short(traceHex(t)))
	}
	sort.Strings(ids)
	if len(ids) > 12 {
		return fmt.Sprintf("%d matched traces: %v ...", len(ids), ids[:12])
	}
	return fmt.Sprintf("matched traces %v", ids)
}
