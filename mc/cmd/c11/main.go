// C11 - the SQL generated for TraceQL selects exactly the traces the query describes.
//
// For every TraceQL script of a bounded grammar (gen.go) and every trace database of a bounded family (db.go) the
// text goes through the REAL parser (reader/traceql/parser) and the REAL request processors
// (reader/traceql/transpiler: Plan / PlanTagsV2 / PlanValuesV2 -> TraceQLComplexityEvaluator -> simple or complex
// ("portions") path), exactly as reader/service/tempoServiceTraceQL.go drives them.  The processors talk to a
// database/sql driver (seam.go) that executes every SQL statement they send with the ClickHouse-subset reference
// interpreter (verif/mc/chsim) on tempo_traces / tempo_traces_attrs_gin derived from the case's spans.  The
// returned traces are compared with a direct evaluator of the property statement (model.go).
package main

import (
	"context"
	"encoding/json"
	"errors"
	"fmt"
	"os"
	"runtime"
	"runtime/debug"
	"runtime/pprof"
	"sort"
	"strings"
	"sync"
	"time"

	"github.com/metrico/qryn/reader/logql/logql_transpiler_v2/shared"
	"github.com/metrico/qryn/reader/model"
	traceql_parser "github.com/metrico/qryn/reader/traceql/parser"
	traceql_transpiler "github.com/metrico/qryn/reader/traceql/transpiler"

	"verif/mc/chsim"
	"verif/mc/ev"
)

type caseSpec struct {
	Query  *Query  `json:"query"`
	Text   string  `json:"traceql"`
	DB     string  `json:"database"`
	Traces []Trace `json:"traces,omitempty"` // small databases travel with the replay file
	Window string  `json:"window"`
	Params Params  `json:"params"`
	Mode   string  `json:"mode"` // simple | complex2 | complex3
	API    string  `json:"api"`  // search | tags | values
	Family string  `json:"family"`
	Key    string  `json:"values_key,omitempty"` // api values: the tag whose values are asked for (default a)
}

func (c *caseSpec) valuesKey() string {
	if c.Key == "" {
		return "a"
	}
	return c.Key
}

type outcome struct {
	done      bool
	class     string // "" = agreement
	what      string
	outcome   string
	unsupp    string
	planErr   string
	nonEmpty  bool
	explained []string
	explMasks []uint32 // every subset of deviant rules (bit = index into deviants) that reproduces the answer
	pre       string
	where     string
	diff      string
	info      []string // informational observations (never violations)
	stmts     int
	micros    int64 // time spent on the case (evidence only; decides nothing)
}

var scriptCache sync.Map // text -> *TraceQLScript | error

func parseScript(text string) (*traceql_parser.TraceQLScript, error) {
	if c, ok := scriptCache.Load(text); ok {
		if s, ok := c.(*traceql_parser.TraceQLScript); ok {
			return s, nil
		}
		return nil, c.(error)
	}
	s, err := traceql_parser.Parse(text)
	if err != nil {
		scriptCache.Store(text, err)
		return nil, err
	}
	scriptCache.Store(text, s)
	return s, nil
}

const complexityThreshold = 10_000_000 // traceql_transpiler.COMPLEXITY_THRESHOLD

func portionsOf(mode string) int {
	switch mode {
	case "complex2":
		return 2
	case "complex3":
		return 3
	}
	return 0
}

type worker struct {
	seam *seam
}

// runSearch drives Plan(script).Process(ctx) the way TempoService.SearchTraceQL does.
func (w *worker) runSearch(text string, p Params, mode string, db *Database) (res []ImplTrace, planErr error, dbErr error) {
	defer func() {
		if r := recover(); r != nil {
			planErr = fmt.Errorf("panic: %v", r)
		}
	}()
	script, err := parseScript(text)
	if err != nil {
		return nil, fmt.Errorf("parser: %v", firstLine(err.Error())), nil
	}
	planner, err := traceql_transpiler.Plan(script)
	if err != nil {
		return nil, err, nil
	}
	force := int64(0)
	if n := portionsOf(mode); n > 0 {
		force = int64(n) * complexityThreshold
	}
	w.seam.reset(db.ch, force)
	ctx := w.plannerCtx(p)
	ch, err := planner.Process(ctx)
	if err != nil {
		if de := w.seamError(); de != nil {
			return nil, nil, de
		}
		return nil, err, nil
	}
	for infos := range ch {
		for _, ti := range infos {
			it := ImplTrace{TID: ti.TraceID}
			for _, s := range ti.SpanSet.Spans {
				it.Spans = append(it.Spans, s.SpanID)
			}
			res = append(res, it)
		}
	}
	if de := w.seamError(); de != nil {
		return nil, nil, de
	}
	return res, nil, nil
}

// runTags drives PlanTagsV2 / PlanValuesV2 the way TempoService.TagsV2 / ValuesV2 do.
func (w *worker) runTags(text string, p Params, api, key string, db *Database) (res []string, planErr error, dbErr error) {
	defer func() {
		if r := recover(); r != nil {
			planErr = fmt.Errorf("panic: %v", r)
		}
	}()
	script, err := parseScript(text)
	if err != nil {
		return nil, fmt.Errorf("parser: %v", firstLine(err.Error())), nil
	}
	var planner shared.GenericTraceRequestProcessor[string]
	if api == "tags" {
		planner, err = traceql_transpiler.PlanTagsV2(script)
	} else {
		planner, err = traceql_transpiler.PlanValuesV2(script, key)
	}
	if err != nil {
		return nil, err, nil
	}
	w.seam.reset(db.ch, 0)
	ch, err := planner.Process(w.plannerCtx(p))
	if err != nil {
		if de := w.seamError(); de != nil {
			return nil, nil, de
		}
		return nil, err, nil
	}
	for vals := range ch {
		res = append(res, vals...)
	}
	if de := w.seamError(); de != nil {
		return nil, nil, de
	}
	return res, nil, nil
}

func (w *worker) plannerCtx(p Params) *shared.PlannerContext {
	return &shared.PlannerContext{
		From: time.Unix(0, p.From).UTC(), To: time.Unix(0, p.To).UTC(), Limit: p.Limit,
		Ctx: context.Background(), CHDb: w.seam,
		// tables.PopulateTableNames, single node
		TracesAttrsTable: "tempo_traces_attrs_gin", TracesAttrsDistTable: "tempo_traces_attrs_gin",
		TracesTable: "tempo_traces", TracesDistTable: "tempo_traces",
		TracesKVTable: "tempo_traces_kv", TracesKVDistTable: "tempo_traces_kv",
	}
}

func (w *worker) seamError() error {
	for _, r := range w.seam.records() {
		if r.Err != nil {
			return &stmtError{r}
		}
	}
	return nil
}

type stmtError struct{ rec stmtRecord }

func (e *stmtError) Error() string { return e.rec.Err.Error() }
func (e *stmtError) Unwrap() error { return e.rec.Err }

func firstLine(s string) string {
	if i := strings.IndexByte(s, '\n'); i >= 0 {
		return s[:i]
	}
	return s
}

// ---------------------------------------------------------------------------------------------------------
// documented deviant rules (known-finding classifiers, DESIGN §7)

// Order matters only between explanations of equal size: the rule most specific to the case (path, `{}`, chain
// length, operator) is tried first, the broadest one (any duration term) last.
var deviants = []struct {
	class   string
	set     func(*Rules)
	applies func(c *caseSpec) bool
}{
	{"aggregator_argument_loses_every_leading_scope_prefix", func(r *Rules) { r.AggStripAll = true }, func(c *caseSpec) bool {
		for _, s := range c.Query.Sels {
			if s.Agg != nil {
				if k, ok := scopedKey(s.Agg.Attr); ok && k != strippedTwice(s.Agg.Attr) {
					return true
				}
			}
		}
		return false
	}},
	{"span_name_and_attribute_called_name_share_index_rows", func(r *Rules) { r.NameShared = true }, usesNameKey},
	{"complex_path_moves_window_start_to_earliest_found_trace", func(r *Rules) { r.PortionFrom = true }, func(c *caseSpec) bool { return portionsOf(c.Mode) > 0 }},

	{"empty_selector_candidates_preselected_differently_from_span_read", func(r *Rules) { r.EmptyEdge = true }, func(c *caseSpec) bool {
		return len(c.Query.Sels) == 1 && c.Query.Sels[0].Expr == nil
	}},
	{"selector_chain_of_three_loses_operand", func(r *Rules) { r.ChainDrop = true }, func(c *caseSpec) bool { return len(c.Query.Sels) >= 3 }},
	{"selector_and_is_rowwise_intersect_of_spans", func(r *Rules) { r.SpanIntersect = true }, func(c *caseSpec) bool {
		for _, op := range c.Query.Ops {
			if op == "&&" {
				return true
			}
		}
		return false
	}},
	{"attr_expr_and_then_or_without_parens_right_nested", func(r *Rules) { r.RightAssoc = true }, func(c *caseSpec) bool {
		for _, s := range c.Query.Sels {
			ops := map[string]bool{}
			s.Expr.ops(ops)
			if s.Flat && len(ops) == 2 {
				return true
			}
		}
		return false
	}},
	{"duration_term_needs_attr_term_on_same_span", func(r *Rules) { r.WhereGate = true }, func(c *caseSpec) bool {
		for _, s := range c.Query.Sels {
			var ts []*Term
			s.Expr.terms(&ts)
			for _, t := range ts {
				if t.Label == "duration" {
					return true
				}
			}
		}
		return false
	}},
}

// usesNameKey: some label of the script reads index rows with key "name" (bare `name`, `.name`, `span.name`, ...).
func usesNameKey(c *caseSpec) bool {
	isName := func(label string) bool {
		if label == "name" {
			return true
		}
		k, ok := scopedKey(label)
		return ok && (k == "name" || strippedTwice(label) == "name")
	}
	for _, s := range c.Query.Sels {
		var ts []*Term
		s.Expr.terms(&ts)
		for _, t := range ts {
			if isName(t.Label) {
				return true
			}
		}
		if s.Agg != nil && isName(s.Agg.Attr) {
			return true
		}
	}
	return false
}

var edgeVariants = []edges{{false, false}, {false, true}, {true, false}, {true, true}}

func onEdge(db *Database, p Params) bool {
	for i := range db.Traces {
		for _, s := range db.Traces[i].Spans {
			if s.TS == p.From || s.TS == p.To {
				return true
			}
		}
	}
	return false
}

const noReference = "the script uses a bare word the statement gives no meaning to"

// agree: does the implementation's answer satisfy the statement under the given rules (any edge reading)?
func agree(impl []ImplTrace, db *Database, c *caseSpec, rules Rules, edge bool) (bool, string, bool, bool) {
	var firstDiff string
	var firstSpansOnly bool
	nonEmpty := false
	for i, ed := range edgeVariants {
		if i > 0 && !edge {
			break
		}
		o := &oracle{rules: rules, portions: portionsOf(c.Mode), hashMod: portionOf}
		exp, err := o.Eval(db, c.Query, c.Params, ed)
		if errors.Is(err, errNoReference) {
			return false, noReference, false, false
		}
		if err != nil {
			return false, "oracle: " + err.Error(), false, false
		}
		if i == 0 {
			nonEmpty = len(exp.M.spans) > 0
		}
		d, so := accept(impl, exp, c.Params)
		if d == "" {
			return true, "", false, nonEmpty
		}
		if i == 0 {
			firstDiff, firstSpansOnly = d, so
		}
	}
	return false, firstDiff, firstSpansOnly, nonEmpty
}

func (w *worker) evaluate(c caseSpec, db *Database, verbose bool) (out outcome) {
	out.done = true
	if c.API != "search" {
		return w.evaluateTags(c, db, verbose)
	}
	impl, planErr, dbErr := w.runSearch(c.Text, c.Params, c.Mode, db)
	recs := w.seam.records()
	out.stmts = len(recs)
	if verbose {
		for _, r := range recs {
			fmt.Printf("SQL[%s]: %s\n", r.Kind, r.SQL)
			if r.Err != nil {
				fmt.Printf("   -> %v\n", r.Err)
			} else {
				fmt.Printf("   -> %d rows\n", r.Rows)
			}
		}
	}
	if planErr != nil {
		out.planErr = planErr.Error()
		out.outcome = "planner_error"
		return out
	}
	if dbErr != nil {
		return classifyStmtError(c, dbErr, out)
	}
	edge := onEdge(db, c.Params)
	ok, diff, spansOnly, nonEmpty := agree(impl, db, &c, Rules{}, edge)
	out.nonEmpty = nonEmpty
	if verbose {
		fmt.Printf("implementation returned %d traces:", len(impl))
		for _, it := range impl {
			var ss []string
			for _, s := range it.Spans {
				ss = append(ss, strings.TrimLeft(s, "0"))
			}
			sort.Strings(ss)
			fmt.Printf(" %s%v", short(it.TID), ss)
		}
		fmt.Println()
		o := &oracle{}
		if exp, err := o.Eval(db, c.Query, c.Params, edges{}); err == nil {
			fmt.Println("statement:", describe(exp))
		}
	}
	if diff == noReference {
		// the planner accepted a bare word other than duration / name (e.g. `| avg(b) > 1`): nothing to compare with
		out.outcome = "bare_word_accepted_without_reference"
		return out
	}
	if strings.HasPrefix(diff, "oracle: ") {
		out.class, out.what = "harness", diff
		return out
	}
	if ok {
		if nonEmpty {
			out.outcome = "agree_nonempty"
		} else {
			out.outcome = "agree_empty"
		}
		out.info = informational(impl, db, &c)
		return out
	}
	// explanation search: the smallest set of documented deviant rules under which the oracle agrees
	var applicable []int
	for i, d := range deviants {
		if d.applies(&c) {
			applicable = append(applicable, i)
		}
	}
	// every subset of the applicable rules that reproduces the implementation's answer (global rule indexes)
	for mask := 1; mask < 1<<len(applicable); mask++ {
		var rules Rules
		var gmask uint32
		for i, di := range applicable {
			if mask&(1<<i) != 0 {
				deviants[di].set(&rules)
				gmask |= 1 << di
			}
		}
		// deviant rules mirror the implementation, whose window is [From, To) everywhere: no edge freedom here
		if ok, _, _, _ := agree(impl, db, &c, rules, false); ok {
			out.explMasks = append(out.explMasks, gmask)
		}
	}
	if spansOnly {
		out.pre = "spans:"
	}
	out.where = fmt.Sprintf("%s on %s window %s %s limit %d mode %s", c.Text, c.DB, c.Window, windowString(c.Params), c.Params.Limit, c.Mode)
	out.diff = diff
	out.class = out.pre + "unexplained:" + c.Mode + ":" + c.Query.Shape()
	out.outcome = "unexplained"
	out.what = out.where + ": " + diff
	return out
}

func popcount(m uint32) int {
	n := 0
	for ; m != 0; m &= m - 1 {
		n++
	}
	return n
}

// attribute chooses, for the whole run, the smallest set of documented deviant rules that explains every explainable
// disagreement (ties: the set with the more specific rules, i.e. the numerically smaller mask), and then names each
// disagreement after its smallest explanation inside that set.  A rule that merely happens to reproduce some answers
// which other rules in force explain anyway is thereby not claimed: when a defect has been fixed its class is no
// longer reported because of coincidences with the remaining ones.
func attribute(results []outcome) {
	var need [][]uint32
	for i := range results {
		if len(results[i].explMasks) > 0 {
			need = append(need, results[i].explMasks)
		}
	}
	if len(need) == 0 {
		return
	}
	all := uint32(1)<<len(deviants) - 1
	chosen := all
	for g := uint32(0); g <= all; g++ {
		if popcount(g) > popcount(chosen) || (popcount(g) == popcount(chosen) && g >= chosen) {
			continue
		}
		ok := true
		for _, masks := range need {
			covered := false
			for _, m := range masks {
				if m&^g == 0 {
					covered = true
					break
				}
			}
			if !covered {
				ok = false
				break
			}
		}
		if ok {
			chosen = g
		}
	}
	for i := range results {
		o := &results[i]
		if len(o.explMasks) == 0 {
			continue
		}
		best := uint32(0)
		for _, m := range o.explMasks {
			if m&^chosen != 0 {
				continue
			}
			if best == 0 || popcount(m) < popcount(best) || (popcount(m) == popcount(best) && m < best) {
				best = m
			}
		}
		o.explained = nil
		for di := range deviants {
			if best&(1<<di) != 0 {
				o.explained = append(o.explained, o.pre+deviants[di].class)
			}
		}
		o.class = strings.Join(o.explained, "+")
		o.outcome = "deviant:" + o.class
		o.what = fmt.Sprintf("%s: %s (explained by deviant rule %s)", o.where, o.diff, o.class)
	}
}

func windowString(p Params) string {
	return fmt.Sprintf("[T0%+d,T0%+d)", p.From-T0, p.To-T0)
}

// selectorDurationOnly: the selector has terms, all of them on duration, and no attribute aggregator.
func selectorDurationOnly(s *Selector) bool {
	if s.Expr == nil {
		return false
	}
	var ts []*Term
	s.Expr.terms(&ts)
	for _, t := range ts {
		if t.Label != "duration" {
			return false
		}
	}
	return s.Agg == nil || s.Agg.Attr == "" || s.Agg.Attr == "duration"
}

func classifyStmtError(c caseSpec, dbErr error, out outcome) outcome {
	var se *stmtError
	errors.As(dbErr, &se)
	kind := "statement"
	if se != nil {
		kind = se.rec.Kind
	}
	var syn *chsim.SyntaxError
	var ee *chsim.EvalError
	switch {
	case errors.Is(dbErr, chsim.ErrUnsupported):
		out.unsupp = dbErr.Error()
		out.outcome = "chsim_unsupported"
	case errors.As(dbErr, &syn):
		durOnly := false
		for i := range c.Query.Sels {
			if selectorDurationOnly(&c.Query.Sels[i]) {
				durOnly = true
			}
		}
		if durOnly && strings.Contains(dbErr.Error(), "empty parentheses") {
			out.class = "duration_only_selector_renders_empty_condition_group"
		} else {
			out.class = "generated_sql_syntax_error:" + c.API + ":" + c.Query.Shape()
		}
		out.outcome = out.class
		out.what = fmt.Sprintf("ClickHouse cannot parse the %s statement generated for %s: %v", kind, c.Text, dbErr)
	case errors.As(dbErr, &ee):
		if c.API != "search" && ee.Code == "NOT_AN_AGGREGATE" && kind == "tags" {
			out.class = "tags_values_v2_selected_column_not_in_group_by"
		} else if len(c.Query.Sels) >= 3 && ee.Code == "UNKNOWN_IDENTIFIER" && strings.Contains(ee.Msg, "'timestamp_ns'") {
			// a nested &&/|| planner is asked for max(timestamp_ns) but only exposes trace_id, span_id, max_timestamp_ns
			out.class = "selector_chain_of_three_nested_select_has_no_timestamp_ns"
		} else {
			out.class = "generated_sql_rejected_" + ee.Code + ":" + c.API + ":" + c.Query.Shape()
		}
		out.outcome = out.class
		out.what = fmt.Sprintf("ClickHouse rejects the %s statement generated for %s: %v", kind, c.Text, dbErr)
	default:
		out.class, out.what = "harness", dbErr.Error()
	}
	return out
}

// evaluateTags: TagsV2 / ValuesV2 with a query: the tag names (values of attribute a) of exactly the selected spans.
func (w *worker) evaluateTags(c caseSpec, db *Database, verbose bool) (out outcome) {
	out.done = true
	got, planErr, dbErr := w.runTags(c.Text, c.Params, c.API, c.valuesKey(), db)
	recs := w.seam.records()
	out.stmts = len(recs)
	if verbose {
		for _, r := range recs {
			fmt.Printf("SQL[%s]: %s\n   -> %d rows, err %v\n", r.Kind, r.SQL, r.Rows, r.Err)
		}
		fmt.Println("returned:", got)
	}
	if planErr != nil {
		out.planErr = planErr.Error()
		out.outcome = "planner_error"
		return out
	}
	if dbErr != nil {
		return classifyStmtError(c, dbErr, out)
	}
	// the expected set under the statement, then (if it differs) under the documented deviant rule that applies to
	// these plans (the shared "name" rows); the attribution is shared with the search cases
	var firstDiff string
	for try := 0; try < 2; try++ {
		var rules Rules
		if try == 1 {
			if !usesNameKey(&c) {
				break
			}
			rules.NameShared = true
		}
		o := &oracle{rules: rules}
		// tag search reads the spans the selector's conditions match; an aggregate filter is not part of it
		// (the plan only uses the aggregated attribute for its row pre-filter)
		sq := &Query{Ops: c.Query.Ops}
		for _, sl := range c.Query.Sels {
			sl.Agg = nil
			sq.Sels = append(sq.Sels, sl)
		}
		m, err := o.match(db.Traces, sq, c.Params, edges{})
		if errors.Is(err, errNoReference) {
			out.outcome = "bare_word_accepted_without_reference"
			return out
		}
		if err != nil {
			out.class, out.what = "harness", "oracle: "+err.Error()
			return out
		}
		want := map[string]bool{}
		for ti := range db.Traces {
			tr := &db.Traces[ti]
			for _, s := range tr.Spans {
				if !m.spans[tr.TID][s.SID] {
					continue
				}
				if c.API == "tags" {
					want["name"], want["service.name"] = true, true
					for k := range s.Attrs {
						want[k] = true
					}
				} else if v, ok := s.Attrs[c.valuesKey()]; ok {
					want[v] = true
				}
			}
		}
		if try == 0 {
			out.nonEmpty = len(want) > 0
		}
		gotSet := map[string]bool{}
		for _, g := range got {
			gotSet[g] = true
		}
		var extra, missing []string
		for g := range gotSet {
			if !want[g] {
				extra = append(extra, g)
			}
		}
		for k := range want {
			if !gotSet[k] {
				missing = append(missing, k)
			}
		}
		sort.Strings(extra)
		sort.Strings(missing)
		if len(extra) == 0 && (len(missing) == 0 || (c.Params.Limit > 0 && int64(len(gotSet)) == c.Params.Limit)) {
			if try == 0 {
				out.outcome = "agree_" + c.API
				return out
			}
			for di, d := range deviants {
				if d.class == "span_name_and_attribute_called_name_share_index_rows" {
					out.explMasks = []uint32{1 << di}
				}
			}
			break
		}
		if try == 0 {
			firstDiff = fmt.Sprintf("returned %v; not of the selected spans: %v; missing: %v", got, extra, missing)
		}
	}
	out.where = fmt.Sprintf("%s %s on %s window %s", c.API, c.Text, c.DB, c.Window)
	out.diff = firstDiff
	out.class = c.API + "_v2_result_differs:" + c.Query.Shape()
	out.outcome = "unexplained"
	out.what = out.where + ": " + firstDiff
	return out
}

// informational: readings of TraceQL that the statement does not fix (anchored regex, != on a missing attribute).
// Counted, never a violation.
func informational(impl []ImplTrace, db *Database, c *caseSpec) []string {
	if c.Family != "term" {
		return nil
	}
	var out []string
	t := c.Query.Sels[0].Expr.Term
	if t == nil {
		return nil
	}
	try := func(name string, rules Rules) {
		if ok, _, _, _ := agree(impl, db, c, rules, false); !ok {
			out = append(out, name)
		}
	}
	if t.Op == "=~" || t.Op == "!~" {
		try("regex_is_search_not_anchored_match", Rules{RegexAnchored: true})
	}
	if t.Op == "!=" || t.Op == "!~" {
		try("negative_operator_requires_attribute_present", Rules{NeqMatchMissing: true})
	}
	return out
}

// ---------------------------------------------------------------------------------------------------------

func main() {
	time.Local = time.UTC
	r := ev.Start("C11", "model_checking", 70*time.Second, 16*time.Minute)
	r.Rule = "every TraceQL script of the bounded grammar (single terms over ./span./resource. prefixes x 8 operators x string/regex/numeric literals, name and duration intrinsics with units; " +
		"boolean trees of <=3 terms with &&/|| in both parenthesised shapes and unparenthesised; aggregators count/avg/min/max/sum x 6 comparisons x units; chains of <=2 (and a sub-alphabet of 3) selectors) " +
		"goes through the real parser and the real request processors (simple path and the complex 'portions' path with 2/3 portions) over a chsim-backed database/sql driver; " +
		"databases: A = every span type (5 a-values x 3 b-values x 2 names x 3 durations) as a single-span trace, B = every multiset of <=3 (B2: <=2) span types of a 6-type pool as one trace, " +
		"S = every interleaving of <=3 traces x <=2..3 spans on the time line x every x/y labelling (limit 1/2/20, window edges on spans, every assignment of traces to hash portions); " +
		"a case is distinct by (script, database, window, limit, path); non-trivial = the statement's match set is non-empty"
	r.Assumptions = []string{
		"chsim implements ClickHouse semantics for the emitted subset (trusted base, mc/chsim/README.md), incl. Nullable aggregate results",
		"a condition on an attribute the span does not have is not satisfied, for every operator (Tempo's reading; counted as informational, not demanded)",
		"regex operators are RE2 search (the statement does not demand anchoring; counted as informational)",
		"span./resource./. prefixes address the same flat attribute map (qryn stores resource attributes merged into the span's tags)",
		"an aggregate over no numeric value of the attribute is undefined and the trace does not pass (ClickHouse: NULL comparison)",
		"window edges: a span exactly on From/To may be counted either way, consistently; 'most recent' may mean newest/oldest matched span, trace start or newest span",
		"the complex path is selected by scripting the answer of the complexity statement (2x/3x 10M); the statement itself is still executed; its contract does not depend on data volume",
		"process time zone UTC (C13 explores zones); single-node table names; ns-granular window bounds",
	}
	debug.SetGCPercent(400)
	if pf := os.Getenv("C11_CPUPROFILE"); pf != "" {
		if f, err := os.Create(pf); err == nil {
			pprof.StartCPUProfile(f)
			defer pprof.StopCPUProfile()
		}
	}

	if q := os.Getenv("C11_QUERY"); q != "" {
		adhoc(q)
		return
	}
	if r.Replay != "" {
		replay(r)
		return
	}

	cfg := genConfig{thorough: r.Thorough()}
	t0 := time.Now()
	dbs, cases := plan(cfg)
	fmt.Fprintf(os.Stderr, "[C11] planned %d cases on %d databases in %.1fs\n", len(cases), len(dbs), time.Since(t0).Seconds())
	quietStderr()
	if os.Getenv("C11_PLAN_ONLY") != "" {
		fam := map[string]int{}
		for _, c := range cases {
			fam[c.Family+"/"+c.API+"/"+c.Mode]++
		}
		fmt.Println(fam)
		return
	}
	if r.Seed != 0 && len(cases) > 0 {
		k := r.Seed % len(cases)
		if k < 0 {
			k += len(cases)
		}
		cases = append(cases[k:], cases[:k]...)
	}

	workers := runtime.NumCPU()
	if workers > 16 {
		workers = 16
	}
	results := make([]outcome, len(cases))
	var wg sync.WaitGroup
	var mu sync.Mutex
	next := 0
	expired := false
	for i := 0; i < workers; i++ {
		wg.Add(1)
		go func() {
			defer wg.Done()
			w := &worker{seam: newSeam()}
			for {
				mu.Lock()
				i := next
				next++
				if !expired && i%512 == 0 && r.Expired() {
					expired = true
				}
				stop := expired
				mu.Unlock()
				if stop || i >= len(cases) {
					return
				}
				t := time.Now()
				results[i] = w.evaluate(cases[i], dbs[cases[i].DB], false)
				results[i].micros = time.Since(t).Microseconds()
			}
		}()
	}
	wg.Wait()
	restoreStderr()
	pprof.StopCPUProfile()

	fold(r, cases, results, dbs, expired)
}

func fold(r *ev.Run, cases []caseSpec, results []outcome, dbs map[string]*Database, expired bool) {
	attribute(results)
	unsupportedShapes := map[string]int{}
	chsimUnsupported, harnessErrors := 0, 0
	var chsimFirst, harnessFirst string
	states := map[string]bool{}
	programs := map[string]bool{}
	executed, stmts, done := int64(0), int64(0), 0
	classCount := map[string]int{}
	classExample := map[string]string{}
	infoCount := map[string]int{}
	famCount := map[string]int{}
	famMillis := map[string]int64{}
	for i := range results {
		o := &results[i]
		if !o.done {
			continue
		}
		done++
		c := &cases[i]
		r.AddEval(1)
		programs[c.Text] = true
		famCount[c.Family+"/"+c.API+"/"+c.Mode]++
		famMillis[c.Family+"/"+c.API+"/"+c.Mode] += o.micros
		stmts += int64(o.stmts)
		switch {
		case o.class == "harness":
			harnessErrors++
			if harnessFirst == "" {
				harnessFirst = c.Text + " on " + c.DB + ": " + o.what
			}
			continue
		case o.planErr != "":
			unsupportedShapes[c.API+" "+c.Query.Shape()+" :: "+o.planErr]++
			r.Outcome("planner_error")
			continue
		case o.unsupp != "":
			chsimUnsupported++
			if chsimFirst == "" {
				chsimFirst = c.Text + ": " + o.unsupp
			}
			r.Outcome("chsim_unsupported")
			continue
		}
		executed++
		states[c.Text+"\x00"+c.DB+"\x00"+c.Window] = true
		if o.nonEmpty {
			r.Distinct(fmt.Sprintf("%s\x00%s\x00%s\x00%d\x00%s\x00%s", c.Text, c.DB, c.Window, c.Params.Limit, c.Mode, c.API))
		}
		r.Outcome(o.outcome)
		for _, n := range o.info {
			infoCount[n]++
		}
		if o.class == "" {
			if o.nonEmpty {
				r.Sample(map[string]any{"traceql": c.Text, "database": c.DB, "window": c.Window, "limit": c.Params.Limit, "path": c.Mode, "api": c.API, "verdict": "agree"})
			}
			continue
		}
		classes := o.explained
		if len(classes) == 0 {
			classes = []string{o.class}
		}
		for _, cl := range classes {
			classCount[cl]++
			if _, ok := classExample[cl]; !ok {
				classExample[cl] = o.what
			}
			rc := *c
			if len(dbs[c.DB].Traces) <= 3 {
				rc.Traces = dbs[c.DB].Traces
			}
			r.Violate(cl, o.what, rc)
		}
	}
	classes := map[string]any{}
	for c, n := range classCount {
		classes[c] = map[string]any{"cases": n, "first": classExample[c]}
	}
	r.Extra["disagreement_classes"] = classes
	r.Extra["informational_readings_not_demanded"] = infoCount
	r.States = int64(len(states))
	r.Transitions = stmts
	r.TracesValidated = executed
	r.Extra["programs"] = len(programs)
	r.Extra["databases"] = len(dbs)
	spans := 0
	for _, d := range dbs {
		spans += d.spans
	}
	r.Extra["database_spans_total"] = spans
	r.Extra["cases_planned"] = len(cases)
	r.Extra["cases_done"] = done
	r.Extra["cases_by_family_api_path"] = famCount
	for k, v := range famMillis {
		famMillis[k] = v / 1000
	}
	r.Extra["worker_ms_by_family_api_path"] = famMillis
	r.Extra["sql_statements_executed"] = stmts
	r.Extra["chsim_unsupported"] = chsimUnsupported
	shapes := make([]string, 0, len(unsupportedShapes))
	for s, n := range unsupportedShapes {
		shapes = append(shapes, fmt.Sprintf("%s (x%d)", s, n))
	}
	sort.Strings(shapes)
	r.Extra["unsupported_shapes_total"] = len(shapes)
	if len(shapes) > 60 {
		shapes = append(shapes[:60], fmt.Sprintf("... %d more", len(shapes)-60))
	}
	r.Extra["unsupported_shapes"] = shapes
	if expired {
		r.Cap(fmt.Sprintf("deadline: %d of %d cases evaluated", done, len(cases)))
	}
	if harnessErrors > 0 {
		ev.Fatal("%d harness errors, first: %s", harnessErrors, harnessFirst)
	}
	if chsimUnsupported > 0 {
		ev.Fatal("chsim returned ErrUnsupported for %d cases of the enumerated grammar (must be 0), first: %s", chsimUnsupported, chsimFirst)
	}
	r.Finish()
}

func replay(r *ev.Run) {
	b, err := os.ReadFile(r.Replay)
	if err != nil {
		ev.Fatal("cannot read replay: %v", err)
	}
	var doc struct {
		Replay caseSpec `json:"replay"`
	}
	if err := json.Unmarshal(b, &doc); err != nil {
		ev.Fatal("bad replay file: %v", err)
	}
	c := doc.Replay
	c.Text = c.Query.String()
	var db *Database
	if len(c.Traces) > 0 {
		db = newDatabase(c.DB, c.Traces)
	} else {
		db = universalByName(c.DB)
	}
	if db == nil {
		ev.Fatal("unknown database %q", c.DB)
	}
	fmt.Printf("TraceQL: %s   database %s   window %s %s   limit %d   path %s   api %s\n", c.Text, c.DB, c.Window, windowString(c.Params), c.Params.Limit, c.Mode, c.API)
	w := &worker{seam: newSeam()}
	os1 := []outcome{w.evaluate(c, db, true)}
	attribute(os1)
	o := os1[0]
	r.AddEval(1)
	switch {
	case o.planErr != "":
		fmt.Println("planner error (unsupported shape):", o.planErr)
	case o.unsupp != "":
		fmt.Println("HARNESS: chsim unsupported:", o.unsupp)
	case o.class == "":
		fmt.Println("verdict: agreement")
	default:
		classes := o.explained
		if len(classes) == 0 {
			classes = []string{o.class}
		}
		for _, cl := range classes {
			r.Violate(cl, o.what, c)
		}
	}
	r.Finish()
}

// adhoc: C11_QUERY='{...}' [C11_DB=A|B|B2] [C11_WINDOW=full|half] [C11_LIMIT=n] [C11_MODE=simple|complex2] [C11_API=search|tags|values]
// renders, executes and compares one script given as text (the oracle reads the text with its own tiny parser).
func adhoc(text string) {
	q, err := parseQueryText(text)
	if err != nil {
		ev.Fatal("cannot read %q: %v", text, err)
	}
	name := os.Getenv("C11_DB")
	if name == "" {
		name = "A"
	}
	db := universalByName(name)
	wins := universalWindows()
	if db == nil {
		if db = smallByName(name); db != nil {
			wins = smallWindows(db.spans)
		}
	}
	if db == nil {
		ev.Fatal("unknown database %s", name)
	}
	win := wins[0]
	for _, w := range wins {
		if w.Name == os.Getenv("C11_WINDOW") {
			win = w
		}
	}
	c := caseSpec{Query: q, Text: text, DB: name, Window: win.Name, Params: Params{From: win.From, To: win.To, Limit: 1000}, Mode: "simple", API: "search", Family: "adhoc"}
	if s := os.Getenv("C11_LIMIT"); s != "" {
		fmt.Sscan(s, &c.Params.Limit)
	}
	if s := os.Getenv("C11_MODE"); s != "" {
		c.Mode = s
	}
	if s := os.Getenv("C11_API"); s != "" {
		c.API = s
	}
	w := &worker{seam: newSeam()}
	os1 := []outcome{w.evaluate(c, db, true)}
	attribute(os1)
	o := os1[0]
	fmt.Printf("outcome=%s class=%s planErr=%s unsupported=%s\n%s\n", o.outcome, o.class, o.planErr, o.unsupp, o.what)
}

var _ = model.TraceInfo{}
