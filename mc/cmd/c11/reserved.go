package main

import (
	"go/ast"
	"go/parser"
	"go/token"
	"io/fs"
	"path/filepath"
	"regexp"
	"sort"
	"strconv"
	"strings"

	"verif/mc/ev"
)

// Attribute names that collide with something the TraceQL transpiler treats specially.  They are collected from the
// source of the repository under test (so a change that starts to special-case a new word is followed automatically):
// every string literal that the packages under reader/traceql/transpiler compare a value with (== / !=, switch cases,
// strings.HasPrefix / TrimPrefix / HasSuffix / TrimSuffix arguments) and that can be written as a TraceQL label, plus
// the intrinsics of the TraceQL definition.
var specIntrinsics = []string{"duration", "name", "status", "kind", "traceDuration", "rootName", "rootServiceName", "service.name"}

var labelRe = regexp.MustCompile(`^[a-zA-Z_][.a-zA-Z0-9_-]*$`)

func comparedLiterals(root string) ([]string, error) {
	seen := map[string]bool{}
	note := func(e ast.Expr) {
		if bl, ok := e.(*ast.BasicLit); ok && bl.Kind == token.STRING {
			if s, err := strconv.Unquote(bl.Value); err == nil {
				seen[s] = true
			}
		}
	}
	fset := token.NewFileSet()
	err := filepath.WalkDir(root, func(path string, d fs.DirEntry, err error) error {
		if err != nil {
			return err
		}
		if d.IsDir() || !strings.HasSuffix(path, ".go") || strings.HasSuffix(path, "_test.go") {
			return nil
		}
		f, err := parser.ParseFile(fset, path, nil, parser.SkipObjectResolution)
		if err != nil {
			return err
		}
		ast.Inspect(f, func(n ast.Node) bool {
			switch x := n.(type) {
			case *ast.BinaryExpr:
				if x.Op == token.EQL || x.Op == token.NEQ {
					note(x.X)
					note(x.Y)
				}
			case *ast.CaseClause:
				for _, e := range x.List {
					note(e)
				}
			case *ast.CallExpr:
				if sel, ok := x.Fun.(*ast.SelectorExpr); ok {
					if id, ok := sel.X.(*ast.Ident); ok && id.Name == "strings" {
						switch sel.Sel.Name {
						case "HasPrefix", "TrimPrefix", "HasSuffix", "TrimSuffix":
							for _, a := range x.Args[1:] {
								note(a)
							}
						}
					}
				}
			}
			return true
		})
		return nil
	})
	if err != nil {
		return nil, err
	}
	out := make([]string, 0, len(seen))
	for s := range seen {
		out = append(out, s)
	}
	sort.Strings(out)
	return out, nil
}

// reservedNames: the attribute names of the keyword family, sorted; compared = the raw literals found.
func reservedNames() (names []string, compared []string) {
	compared, err := comparedLiterals(filepath.Join(ev.Repo(), "reader", "traceql", "transpiler"))
	if err != nil {
		ev.Fatal("cannot read the transpiler sources: %v", err)
	}
	set := map[string]bool{}
	for _, s := range specIntrinsics {
		set[s] = true
	}
	for _, s := range compared {
		s = strings.Trim(s, ".") // "span." / "resource." / "." are scope spellings: the word itself is a legal attribute name
		if labelRe.MatchString(s) {
			set[s] = true
		}
	}
	for s := range set {
		names = append(names, s)
	}
	sort.Strings(names)
	return names, compared
}
