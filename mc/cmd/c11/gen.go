package main

// ---------------------------------------------------------------------------------------------------------
// bounded grammar: term alphabets, trees, aggregators, selector chains

type genConfig struct{ thorough bool }

var prefixes = []string{".", "span.", "resource."}

// singleTerms: the full term alphabet (every prefix x attribute x operator x literal kind, name and duration
// intrinsics with every unit, and the ill-typed combinations the planner is expected to reject).
func singleTerms() []*Expr {
	var out []*Expr
	for _, p := range prefixes {
		for _, a := range []string{"a", "b"} {
			l := p + a
			strs := []string{`"foo"`, `"5"`}
			res := []string{`"fo"`, `"^foo$"`, `"o+x"`}
			nums := []string{"5", "7.5", "6"}
			if a == "b" {
				strs = []string{`"bar"`, `"10"`}
				res = []string{`"ba"`, `"^bar$"`, `"^1"`}
				nums = []string{"10", "9.5", "-1"}
			}
			for _, op := range []string{"=", "!="} {
				for _, v := range strs {
					out = append(out, leaf(l, op, v))
				}
			}
			for _, op := range []string{"=~", "!~"} {
				for _, v := range res {
					out = append(out, leaf(l, op, v))
				}
			}
			for _, op := range []string{"=", "!=", ">", ">=", "<", "<="} {
				for _, v := range nums {
					out = append(out, leaf(l, op, v))
				}
			}
		}
	}
	// quote and backslash inside the literal; `ticked` literals
	out = append(out, leaf(".a", "=", `"q'\\z"`), leaf(".a", "!=", `"q'\\z"`), leaf(".a", "=~", `"q'\\\\z"`), leaf(".a", "!~", `"'"`),
		leaf(".a", "=", "`foo`"), leaf(".a", "=", "`q'\\z`"), leaf(".a", "=~", "`^q'\\\\z$`"), leaf("name", "!=", "`op1`"))
	for _, op := range []string{"=", "!=", "=~", "!~"} {
		out = append(out, leaf("name", op, `"op1"`))
	}
	out = append(out, leaf("name", "=~", `"op"`), leaf("name", "=~", `"^p"`), leaf("span.name", "=", `"op1"`))
	for _, op := range []string{"=", "!=", ">", ">=", "<", "<="} {
		out = append(out, leaf("duration", op, "1s"))
	}
	for _, v := range []string{"1000ms", "1000000us", "1000000000ns", "0.5s", "1.5s", "1m", "1h", "1d"} {
		out = append(out, leaf("duration", ">=", v), leaf("duration", "<", v))
	}
	// ill-typed / unsupported combinations (expected: planner error, listed by shape)
	out = append(out, leaf(".a", ">", `"foo"`), leaf(".a", "=~", "5"), leaf("duration", "=", "5"), leaf(".a", "=", "1s"),
		leaf("name", "=", "5"), leaf("a", "=", `"foo"`), leaf("duration", "=~", `"1s"`))
	return out
}

// coreTerms: one representative of every term kind whose rendering differs (string =, !=, regex, numeric,
// a second spelling of the same attribute, the other attribute, name, duration both ways).
func coreTerms(n int) []*Expr {
	all := []*Expr{
		leaf(".a", "=", `"foo"`),
		leaf("duration", ">", "1s"),
		leaf(".b", "=", "10"),
		leaf(".a", "!=", `"foo"`),
		leaf("name", "=", `"op1"`),
		leaf(".a", ">", "6"),
		leaf("span.a", "=", `"foo"`),
		leaf("duration", "<=", "1s"),
		leaf(".a", "=~", `"fo"`),
		leaf(".b", "!~", `"ba"`),
		leaf("resource.b", "<", "10.5"),
		leaf("name", "!=", `"op1"`),
		leaf(".a", "=", "5"),
		leaf(".b", "=", `"bar"`),
		leaf("duration", "=", "1000ms"),
		leaf(".a", "!~", `"^x"`),
		leaf("span.b", ">=", "10"),
		leaf(".a", "<=", "5"),
		leaf(".a", "=", `"5"`),
		leaf("name", "=~", `"2$"`),
	}
	if n > len(all) {
		n = len(all)
	}
	return all[:n]
}

func sel(e *Expr) Selector           { return Selector{Expr: e} }
func selAgg(e *Expr, a Agg) Selector { return Selector{Expr: e, Agg: &a} }
func single(s Selector) *Query       { return &Query{Sels: []Selector{s}} }
func chain2(a Selector, op string, b Selector) *Query {
	return &Query{Sels: []Selector{a, b}, Ops: []string{op}}
}

var boolOps = []string{"&&", "||"}

// treeQueries: single-selector queries over boolean trees of <= 3 terms.
//
//	n1: all single terms; n2: t op t' over c2 x c2 (repeated terms included); n3: both parenthesised shapes and the
//	flat (unparenthesised) rendering over c3^3 x ops^2.
func treeQueries(c2, c3 []*Expr) (one, two, three, flat []*Query) {
	for _, t := range singleTerms() {
		one = append(one, single(sel(t)))
	}
	for _, a := range c2 {
		for _, b := range c2 {
			for _, op := range boolOps {
				two = append(two, single(sel(&Expr{Op: op, L: a, R: b})))
			}
		}
	}
	for _, a := range c3 {
		for _, b := range c3 {
			for _, c := range c3 {
				for _, o1 := range boolOps {
					for _, o2 := range boolOps {
						three = append(three, single(sel(&Expr{Op: o2, L: &Expr{Op: o1, L: a, R: b}, R: c})))
						three = append(three, single(sel(&Expr{Op: o1, L: a, R: &Expr{Op: o2, L: b, R: c}})))
						flat = append(flat, single(Selector{Flat: true, Expr: flatTree([]*Expr{a, b, c}, []string{o1, o2})}))
					}
				}
			}
		}
	}
	return
}

var cmps = []string{"=", "!=", ">", ">=", "<", "<="}

// aggregators: count/avg/min/max/sum with every comparison, units on duration, the three prefixes on attributes,
// an attribute with mixed numeric / non-numeric / missing values, and ill-typed combinations.
func aggregators(thorough bool) []Agg {
	var out []Agg
	for _, c := range cmps {
		out = append(out, Agg{"count", "", c, "1"}, Agg{"count", "", c, "2"})
	}
	out = append(out, Agg{"count", "", ">", "1.5"}, Agg{"count", ".b", ">", "1"}, Agg{"count", "duration", ">", "1"})
	for _, fn := range []string{"avg", "min", "max", "sum"} {
		for _, c := range cmps {
			out = append(out, Agg{fn, "duration", c, "1s"})
			out = append(out, Agg{fn, ".b", c, "10"})
			if thorough {
				out = append(out, Agg{fn, ".b", c, "20"}, Agg{fn, "duration", c, "2000000002ns"})
			}
		}
		out = append(out,
			Agg{fn, "duration", ">", "1000ms"}, Agg{fn, "duration", "<=", "2000000us"}, Agg{fn, "duration", ">", "1.5s"},
			Agg{fn, "duration", "<", "1m"}, Agg{fn, "duration", "<", "1h"},
			Agg{fn, "span.b", ">=", "10"}, Agg{fn, "resource.b", "<", "15"}, Agg{fn, ".b", ">", "-1"}, Agg{fn, ".b", "=", "20"},
			Agg{fn, ".a", ">", "5"}, Agg{fn, ".a", "=", "6.25"}, Agg{fn, ".a", "<=", "12.5"}, Agg{fn, ".c", "<", "1"},
		)
	}
	// ill-typed (expected: planner error)
	out = append(out, Agg{"avg", "duration", ">", "1"}, Agg{"avg", ".b", ">", "1s"}, Agg{"count", "", ">", "1s"}, Agg{"max", "duration", ">", "1d"})
	return out
}

// aggSelectors: the selectors aggregators are attached to.
func aggSelectors(thorough bool) []*Expr {
	out := []*Expr{
		leaf("name", "=~", `"op"`),   // every span
		leaf(".a", "!=", `"zzz"`),    // spans having a
		leaf("duration", ">=", "1s"), // duration only: with an attribute aggregator the statement is valid
		or(leaf(".a", "=", `"foo"`), leaf(".b", "=", "10")),
	}
	if thorough {
		out = append(out, leaf(".b", ">", "5"), and(leaf("name", "=", `"op1"`), leaf("duration", ">", "1s")), or(leaf("duration", ">", "1s"), leaf(".a", "=", "5")))
	}
	return out
}

func aggQueries(thorough bool) []*Query {
	var out []*Query
	for _, e := range aggSelectors(thorough) {
		for _, a := range aggregators(thorough) {
			out = append(out, single(selAgg(e, a)))
		}
	}
	return out
}

// chainSelectors: operands of selector chains.
func chainSelectors(thorough bool) []Selector {
	out := []Selector{
		sel(leaf(".a", "=", `"foo"`)),
		sel(leaf(".b", "=", "10")),
		sel(leaf("name", "=", `"op1"`)),
		sel(and(leaf(".a", "=", "5"), leaf("duration", "<", "1s"))),
		selAgg(leaf("name", "=~", `"op"`), Agg{"count", "", ">", "1"}),
		selAgg(leaf(".a", "!=", `"zzz"`), Agg{"max", "duration", ">", "1s"}),
	}
	if thorough {
		out = append(out,
			sel(leaf(".a", "=", `"foo"`)), // the same selector twice in a chain
			sel(or(leaf(".a", "=", `"foo"`), leaf(".a", "=", "5"))),
			selAgg(leaf(".b", "=", "10"), Agg{"sum", ".b", ">=", "20"}),
			sel(leaf("duration", ">", "1s")), // duration-only operand
		)
	}
	return out
}

func chainQueries(thorough bool) (two, three []*Query) {
	ss := chainSelectors(thorough)
	for _, a := range ss {
		for _, b := range ss {
			for _, op := range boolOps {
				two = append(two, chain2(a, op, b))
			}
		}
	}
	// {} inside a chain is rejected by the planner
	two = append(two, chain2(Selector{}, "||", ss[0]), chain2(ss[0], "&&", Selector{}))
	s3 := ss[:3]
	if thorough {
		s3 = ss[:4]
	}
	for _, a := range s3 {
		for _, b := range s3 {
			for _, c := range s3 {
				for _, o1 := range boolOps {
					for _, o2 := range boolOps {
						three = append(three, &Query{Sels: []Selector{a, b, c}, Ops: []string{o1, o2}})
					}
				}
			}
		}
	}
	return
}

// limitQueries: the queries run on the small-database family (attribute a is "x"/"y", b = slot number,
// duration 1s or 2s).
func limitQueries(thorough bool) []*Query {
	x := leaf(".a", "=", `"x"`)
	y := leaf(".a", "=", `"y"`)
	out := []*Query{
		single(sel(x)),
		single(Selector{}),
		single(selAgg(x, Agg{"count", "", ">", "1"})),
		single(selAgg(x, Agg{"count", "", "<", "2"})),
		single(selAgg(x, Agg{"max", ".b", ">", "2"})),
		chain2(sel(x), "||", sel(y)),
		chain2(sel(x), "&&", sel(y)),
		single(sel(or(x, leaf("duration", ">", "1s")))),
	}
	if thorough {
		out = append(out,
			single(selAgg(x, Agg{"sum", "duration", "<=", "2s"})),
			single(selAgg(leaf("name", "=", `"op1"`), Agg{"avg", ".b", "<", "3"})),
			chain2(selAgg(x, Agg{"count", "", "=", "1"}), "||", sel(y)),
			chain2(sel(x), "&&", sel(leaf(".b", ">", "2"))),
		)
	}
	return out
}

// ---------------------------------------------------------------------------------------------------------
// keyword family: attribute names that collide with intrinsics / special-cased words x every scope spelling x every
// position (condition, aggregator argument, tags / values plans).  Reference: a scoped spelling always means the
// attribute, the bare words duration and name mean the intrinsics, any other bare word has no meaning (the planner
// is expected to reject it).

type kwCase struct {
	q    *Query
	api  string
	key  string
	mode string
}

func keywordCases(thorough bool) []kwCase {
	var out []kwCase
	mark := leaf(".mark", "=", `"k"`)
	names := append(keywordAttrNames(), "service.name")
	for _, r := range names {
		full := thorough || r == "duration" || r == "name"
		for _, sc := range []string{".", "span.", "resource.", ""} {
			l := sc + r
			// condition position
			terms := []*Expr{leaf(l, "=", "7"), leaf(l, ">", "100"), leaf(l, "=", `"zzz"`), leaf(l, "!=", `"zzz"`), leaf(l, "=~", `"^z"`)}
			if l == "duration" {
				terms = append(terms, leaf(l, ">", "1s"), leaf(l, "=", "7ns"), leaf(l, "<", "1s"))
			}
			if l == "name" {
				terms = append(terms, leaf(l, "=", `"op1"`), leaf(l, "!~", `"^z"`))
			}
			for i, t := range terms {
				out = append(out, kwCase{q: single(sel(t)), api: "search"})
				if sc != "" && (i == 0 || i == 2) {
					out = append(out, kwCase{q: single(sel(and(mark, t))), api: "search"})
					out = append(out, kwCase{q: single(sel(t)), api: "tags"})
				}
			}
			// aggregator argument
			if sc == "" && r != "duration" && r != "name" {
				continue // `| avg(status) > 1`: a bare word without meaning; one probe per word below
			}
			fns := []string{"max"}
			if full {
				fns = []string{"avg", "min", "max", "sum"}
			}
			type ct struct{ cmp, thr string }
			cts := []ct{{">", "5"}, {"<", "100"}}
			if full {
				cts = append(cts, ct{">", "100"}, ct{"=", "7"})
			}
			if l == "duration" {
				cts = []ct{{">", "1s"}, {"<", "1s"}, {">", "5ns"}, {"=", "7ns"}}
			}
			for _, fn := range fns {
				for _, c := range cts {
					a := Agg{fn, l, c.cmp, c.thr}
					out = append(out, kwCase{q: single(selAgg(mark, a)), api: "search"})
					if r == "duration" || r == "name" {
						// chained, and executed once per portion on the complex path (the plan is reused)
						out = append(out, kwCase{q: chain2(selAgg(mark, a), "&&", sel(mark)), api: "search"})
						out = append(out, kwCase{q: chain2(sel(leaf("name", "=", `"zzz"`)), "||", selAgg(mark, a)), api: "search"})
						out = append(out, kwCase{q: single(selAgg(mark, a)), api: "search", mode: "complex2"})
					}
				}
			}
			out = append(out, kwCase{q: single(selAgg(mark, Agg{"count", l, ">", "1"})), api: "search"})
			// the aggregator argument also feeds the row pre-filter of the tags / values plans
			out = append(out, kwCase{q: single(selAgg(mark, Agg{"max", l, ">", "5"})), api: "tags"})
		}
		out = append(out, kwCase{q: single(selAgg(mark, Agg{"max", r, ">", "5"})), api: "search"}) // bare word as aggregator argument
		// values of the tag r over the marked spans and over the spans selected through r itself
		if r != "name" && r != "service.name" {
			out = append(out, kwCase{q: single(sel(mark)), api: "values", key: r})
			out = append(out, kwCase{q: single(sel(leaf("."+r, "=", "7"))), api: "values", key: r})
		}
	}
	return out
}
