package main

import (
	"os"
	"syscall"
)

// SimpleTagsV2RequestProcessor prints every statement with println (file descriptor 2).  During the enumeration
// descriptor 2 points at /dev/null; the harness's own diagnostics go through realStderr and the descriptor is
// restored before the results are folded (ev.Fatal writes to os.Stderr).
var realStderr = os.Stderr

func quietStderr() {
	fd, err := syscall.Dup(2)
	if err != nil {
		return
	}
	null, err := os.OpenFile("/dev/null", os.O_WRONLY, 0)
	if err != nil {
		return
	}
	realStderr = os.NewFile(uintptr(fd), "stderr")
	syscall.Dup3(int(null.Fd()), 2, 0)
}

func restoreStderr() {
	if realStderr != os.Stderr {
		syscall.Dup3(int(realStderr.Fd()), 2, 0)
	}
}
