package main

import (
	"encoding/binary"
	"fmt"
	"sort"
	"strings"

	"github.com/go-faster/city"

	"verif/mc/chsim"
)

// T0 is 2023-11-15T00:00:00Z: spans are laid out around midnight UTC so that the `date` bounds of the index scan
// are not trivially true.
const T0 = int64(1700006400) * 1_000_000_000

const slotNS = int64(1000) // distance between two time slots

// Database is one trace database: the Go rows the oracle reads and the chsim tables the SQL runs on (built from the
// same rows through traces_input and the transcribed materialized views).
type Database struct {
	Name   string
	Traces []Trace
	byID   map[uint64]*Trace
	ch     *chsim.DB
	spans  int
}

func newDatabase(name string, traces []Trace) *Database {
	db := &Database{Name: name, Traces: traces, byID: map[uint64]*Trace{}}
	var rows [][]chsim.Value
	for i := range traces {
		tr := &db.Traces[i]
		if _, dup := db.byID[tr.TID]; dup {
			panic("duplicate trace id in " + name)
		}
		db.byID[tr.TID] = tr
		for _, s := range tr.Spans {
			db.spans++
			tags := chsim.Array{chsim.Tuple{"name", s.Name}, chsim.Tuple{"service.name", "svc"}}
			keys := make([]string, 0, len(s.Attrs))
			for k := range s.Attrs {
				keys = append(keys, k)
			}
			sort.Strings(keys)
			for _, k := range keys {
				tags = append(tags, chsim.Tuple{k, s.Attrs[k]})
			}
			rows = append(rows, []chsim.Value{"0", traceHex(tr.TID), spanHex(s.SID), "", s.Name, s.TS, s.Dur, "svc", int64(2), "", tags})
		}
	}
	db.ch = chsim.NewDB()
	db.ch.AddQrynTable("traces_input", rows)
	db.ch.MaterializeAll()
	return db
}

// portionOf is cityHash64(trace_id) % n for the FixedString(16) trace id, as the complex path computes it.
func portionOf(tid uint64, n int) int {
	var b [16]byte
	binary.BigEndian.PutUint64(b[8:], tid)
	return int(city.CH64(b[:]) % uint64(n))
}

// ---------------------------------------------------------------------------------------------------------
// span alphabet

// attribute values: missing / numeric (integer and %f-rendered double, as the writer stores them) / non-numeric
var aValues = []string{"", "5", "7.500000", "foo", "xfoox", `q'\z`}
var bValues = []string{"", "10", "bar"}
var names = []string{"op1", "op2"}

// durations around the 1s threshold used by the duration terms
var durations = []int64{999_999_999, 1_000_000_000, 1_000_000_001}

func mkAttrs(a, b string) map[string]string {
	m := map[string]string{}
	if a != "" {
		m["a"] = a
	}
	if b != "" {
		m["b"] = b
	}
	return m
}

// universalA: every span type (a value x b value x name x duration) as a single-span trace.  Odd traces lie in the
// time line, so the half and early windows cut the types.  One query execution decides the per-span semantics for
// all 108 types at once.
func universalA() *Database {
	var traces []Trace
	id := uint64(0)
	for _, a := range aValues {
		for _, b := range bValues {
			for _, n := range names {
				for _, d := range durations {
					id++
					traces = append(traces, Trace{TID: 0xA000 + id, Spans: []Span{{SID: 1, TS: T0 + int64(id)*slotNS - 40*slotNS, Dur: d, Name: n, Attrs: mkAttrs(a, b)}}})
				}
			}
		}
	}
	return newDatabase("A", traces)
}

// spanType is a member of the pool multi-span traces are built from.
type spanType struct {
	A, B string
	Name string
	Dur  int64
	In   bool // inside the half window (see windows()); every span is inside the full window
}

// poolB: span types for multi-span traces.  Chosen so that every term kind of the grammar separates some pair and
// aggregates over a/b/duration take distinct values; each type exists inside and outside the half window.
var poolB = []spanType{
	{"5", "10", "op1", 999_999_999, true},
	{"7.500000", "", "op1", 1_000_000_001, true},
	{"foo", "bar", "op2", 1_000_000_000, true},
	{"", "10", "op2", 1_000_000_001, true},
	{"5", "", "op1", 1_000_000_001, false},
	{"foo", "10", "op2", 999_999_999, false},
}

// universalB: every multiset of 1..maxSpans span types of the pool as one trace ("packing" of all small traces into
// one database: traces do not interact under the property as long as the limit is not binding).  Spans of one trace
// get increasing timestamps; "out" types are placed before the half window, "in" types inside.
func universalB(name string, pool []spanType, maxSpans int, base uint64) *Database {
	var traces []Trace
	id := uint64(0)
	inSlot, outSlot := int64(0), int64(0)
	var rec func(start int, cur []int)
	emit := func(cur []int) {
		id++
		tr := Trace{TID: base + id}
		for i, k := range cur {
			st := pool[k]
			var ts int64
			if st.In {
				inSlot++
				ts = T0 + inSlot*slotNS
			} else {
				outSlot++
				ts = T0 - outSlot*slotNS
			}
			tr.Spans = append(tr.Spans, Span{SID: i + 1, TS: ts, Dur: st.Dur, Name: st.Name, Attrs: mkAttrs(st.A, st.B)})
		}
		traces = append(traces, tr)
	}
	rec = func(start int, cur []int) {
		if len(cur) > 0 {
			emit(cur)
		}
		if len(cur) == maxSpans {
			return
		}
		for k := start; k < len(pool); k++ {
			rec(k, append(append([]int{}, cur...), k))
		}
	}
	rec(0, nil)
	return newDatabase(name, traces)
}

// Window is a named request window.
type Window struct {
	Name     string
	From, To int64
}

// windows of the universal databases: "full" holds every span; "half" starts exactly ON the first inside slot of B
// (From is inclusive by every reading that matters here: no span of A/B sits on an edge except that one, which the
// edge variants of the oracle cover) and cuts A in two.
func universalWindows() []Window {
	return []Window{
		{"full", T0 - 1_000_000*slotNS, T0 + 1_000_000*slotNS},
		{"half", T0 + slotNS/2, T0 + 1_000_000*slotNS},
		{"early", T0 - 1_000_000*slotNS, T0 - 5*slotNS}, // ends on the previous UTC day
	}
}

// ---------------------------------------------------------------------------------------------------------
// small databases for limit / ordering / window edges / complex path: <= 3 traces x <= 2..3 spans, every
// interleaving of the spans on the time line (up to renaming the traces), every assignment of {x, y} to attribute a.

type smallCfg struct {
	maxTraces, maxSpans, maxTotal int
	idSets                        [][]uint64 // trace-id assignments (hash portions differ)
}

// smallSpecs enumerates the family.  Span j of the time line sits at slot j+1 (T0 + (j+1)*slotNS): windows are cut
// relative to slots.  Attribute a is "x" (the span matches {.a = "x"}) or "y"; b = slot number (numeric), duration =
// 1s for x spans with odd slot else 2s.
type smallSpec struct {
	name   string
	traces []Trace
}

func smallSpecs(cfg smallCfg) []smallSpec {
	var out []smallSpec
	var shapes [][]int // spans per trace, non-increasing is NOT imposed (traces are ordered by first span instead)
	var recShape func(cur []int, total int)
	recShape = func(cur []int, total int) {
		if len(cur) > 0 {
			shapes = append(shapes, append([]int{}, cur...))
		}
		if len(cur) == cfg.maxTraces {
			return
		}
		for n := 1; n <= cfg.maxSpans; n++ {
			if total+n > cfg.maxTotal {
				break
			}
			recShape(append(cur, n), total+n)
		}
	}
	recShape(nil, 0)
	for _, shape := range shapes {
		total := 0
		for _, n := range shape {
			total += n
		}
		// interleavings: sequences over trace indexes with shape[i] occurrences of i, first occurrences in order 0,1,2
		var seqs [][]int
		var recSeq func(cur []int, left []int, opened int)
		recSeq = func(cur []int, left []int, opened int) {
			if len(cur) == total {
				seqs = append(seqs, append([]int{}, cur...))
				return
			}
			for t := 0; t < len(shape) && t <= opened; t++ {
				if left[t] == 0 {
					continue
				}
				left[t]--
				no := opened
				if t == opened {
					no++
				}
				recSeq(append(cur, t), left, no)
				left[t]++
			}
		}
		recSeq(nil, append([]int{}, shape...), 0)
		for _, seq := range seqs {
			for mask := 0; mask < 1<<total; mask++ {
				for is, ids := range cfg.idSets {
					traces := make([]Trace, len(shape))
					for t := range traces {
						traces[t].TID = ids[t]
					}
					var desc strings.Builder
					for j, t := range seq {
						a := "y"
						if mask&(1<<j) != 0 {
							a = "x"
						}
						dur := int64(2_000_000_000)
						if a == "x" && j%2 == 0 {
							dur = 1_000_000_000
						}
						tr := &traces[t]
						tr.Spans = append(tr.Spans, Span{SID: len(tr.Spans) + 1, TS: T0 + int64(j+1)*slotNS, Dur: dur, Name: "op1",
							Attrs: map[string]string{"a": a, "b": fmt.Sprint(j + 1)}})
						fmt.Fprintf(&desc, "%d%s", t+1, a)
					}
					out = append(out, smallSpec{fmt.Sprintf("S:%s#%d", desc.String(), is), traces})
				}
			}
		}
	}
	return out
}

// idSetsFor returns trace-id triples realising every assignment of 3 traces to `portions` hash slices.
func idSetsFor(portions int) [][]uint64 {
	byPortion := map[int][]uint64{}
	for id := uint64(0x5001); len(byPortion) < portions || short3(byPortion, portions); id++ {
		p := portionOf(id, portions)
		if len(byPortion[p]) < 3 {
			byPortion[p] = append(byPortion[p], id)
		}
	}
	var out [][]uint64
	var rec func(cur []int)
	rec = func(cur []int) {
		if len(cur) == 3 {
			used := map[int]int{}
			ids := make([]uint64, 3)
			for i, p := range cur {
				ids[i] = byPortion[p][used[p]]
				used[p]++
			}
			out = append(out, ids)
			return
		}
		for p := 0; p < portions; p++ {
			rec(append(append([]int{}, cur...), p))
		}
	}
	rec(nil)
	return out
}

func short3(m map[int][]uint64, portions int) bool {
	for p := 0; p < portions; p++ {
		if len(m[p]) < 3 {
			return true
		}
	}
	return false
}

// smallByName rebuilds one database of the small family from its name "S:<trace><x|y>...#<id set>" (ad-hoc runs).
func smallByName(name string) *Database {
	body, idx, ok := strings.Cut(strings.TrimPrefix(name, "S:"), "#")
	if !ok || !strings.HasPrefix(name, "S:") || len(body)%2 != 0 {
		return nil
	}
	var is int
	fmt.Sscan(idx, &is)
	sets := idSetsFor(2)
	if is >= len(sets) {
		return nil
	}
	var traces []Trace
	for j := 0; j < len(body)/2; j++ {
		t := int(body[2*j] - '1')
		a := string(body[2*j+1])
		for len(traces) <= t {
			traces = append(traces, Trace{TID: sets[is][len(traces)]})
		}
		dur := int64(2_000_000_000)
		if a == "x" && j%2 == 0 {
			dur = 1_000_000_000
		}
		tr := &traces[t]
		tr.Spans = append(tr.Spans, Span{SID: len(tr.Spans) + 1, TS: T0 + int64(j+1)*slotNS, Dur: dur, Name: "op1",
			Attrs: map[string]string{"a": a, "b": fmt.Sprint(j + 1)}})
	}
	return newDatabase(name, traces)
}

// ---------------------------------------------------------------------------------------------------------
// K: attributes whose NAME collides with a word the transpiler treats specially (reserved.go) or that starts with a
// scope word.  For every such name r: four span types - attribute r = "7" on a span called op1 lasting 3 s; r = "zzz"
// on the same kind of span; r = "3000000000" on a span called zzz lasting 7 ns; no attribute r on a span called zzz
// lasting 7 ns - so that reading `.duration` / `.name` / ... as the intrinsic selects different traces than reading
// it as the attribute (7 vs 3e9 ns, "zzz" vs "op1"), and every multiset of <= 2 of them as one trace.  Every span
// carries mark = "k".
func keywordAttrNames() []string {
	names, _ := reservedNames()
	var out []string
	for _, n := range names {
		if n != "service.name" { // every stored span already has it (value svc): queried, not planted
			out = append(out, n)
		}
	}
	return append(out, "resource.q", "span.q")
}

// universalK(full): every multiset of <= 2 types per name (14 traces); otherwise the 4 single-span traces and the
// three pairs that mix the readings (7 traces per name) - database "Kq" of the quick tier.
func universalK(full bool) *Database {
	type kt struct {
		val  string
		name string
		dur  int64
	}
	pool := []kt{{"7", "op1", 3_000_000_000}, {"zzz", "op1", 3_000_000_000}, {"3000000000", "zzz", 7}, {"", "zzz", 7}}
	var traces []Trace
	id, slot := uint64(0), int64(0)
	for _, r := range keywordAttrNames() {
		for i := range pool {
			for j := i - 1; j < len(pool); j++ { // j == i-1: the single-span trace
				if !full && j >= i && !((i == 0 && j == 1) || (i == 0 && j == 2) || (i == 2 && j == 3)) {
					continue
				}
				id++
				tr := Trace{TID: 0xD000 + id}
				kinds := []int{i}
				if j >= i {
					kinds = append(kinds, j)
				}
				for n, k := range kinds {
					slot++
					attrs := map[string]string{"mark": "k"}
					if pool[k].val != "" {
						attrs[r] = pool[k].val
					}
					tr.Spans = append(tr.Spans, Span{SID: n + 1, TS: T0 + slot*slotNS, Dur: pool[k].dur, Name: pool[k].name, Attrs: attrs})
				}
				traces = append(traces, tr)
			}
		}
	}
	if !full {
		return newDatabase("Kq", traces)
	}
	return newDatabase("K", traces)
}
