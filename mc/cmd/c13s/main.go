// C13 (schedules): "the index date range of a statement covers the window of ITS request" when requests are
// concurrent.  The planner helpers every LogQL / label / series / Prometheus statement takes its date lower bound and
// its signal-type filter from (clickhouse_planner: sql_misc.go FormatFromDate / GetTypes, ValuesPlanner, SeriesPlanner,
// TimeSeriesInitPlanner, StreamSelectPlanner; service.FormatFromDate) are instrumented through the build overlay
// (scheduling points at every atomic / lock operation and before every statement) and driven by 2-3 request threads
// under the controlled scheduler (engine E1).  Every thread builds the real statements of its own requests (windows
// on different UTC days around a month end, different signal types, both layouts) and renders them to text.
// Oracle: the text a request gets in ANY interleaving within the deviation bound equals the text the same request
// gets alone (computed sequentially at the start of the execution), and after the concurrent phase every request,
// asked again sequentially, still gets that text (a fresh request after any history answers as a fresh request).
package main

import (
	"fmt"
	"os"
	"runtime"
	"strings"
	"time"

	"github.com/metrico/qryn/reader/logql/logql_transpiler_v2/clickhouse_planner"
	"github.com/metrico/qryn/reader/logql/logql_transpiler_v2/shared"
	"github.com/metrico/qryn/reader/service"
	sql "github.com/metrico/qryn/reader/utils/sql_select"

	"verif/mc/ev"
	"verif/mc/sched"
	"verif/mc/sched/vsync"
)

type request struct {
	Kind    string // values | values_fp | series | tsinit | date
	Win     string
	Type    uint8
	Cluster bool
}

func (q request) String() string {
	return fmt.Sprintf("%s/%s/t%d/c%v", q.Kind, q.Win, q.Type, q.Cluster)
}

// windows around the UTC midnight M that ends January 2024 (the main check's month end) and the leap day
var mid = time.Date(2024, 2, 1, 0, 0, 0, 0, time.UTC)
var windows = map[string][2]time.Time{
	"prev":   {mid.Add(-12 * time.Hour), mid.Add(-6 * time.Hour)},                                    // both bounds on Jan 31
	"next":   {mid.Add(12 * time.Hour), mid.Add(18 * time.Hour)},                                     // both on Feb 1
	"early":  {mid.Add(10 * time.Minute), mid.Add(50 * time.Minute)},                                 // starts on Feb 1, start - 30 min on Jan 31
	"cross":  {mid.Add(-2 * time.Second), mid.Add(10 * time.Minute)},                                 // crosses the month end
	"leap":   {mid.AddDate(0, 0, 28).Add(12 * time.Hour), mid.AddDate(0, 0, 28).Add(18 * time.Hour)}, // Feb 29
	"march":  {mid.AddDate(0, 0, 29).Add(12 * time.Hour), mid.AddDate(0, 0, 29).Add(18 * time.Hour)}, // Mar 1
	"primer": {mid.AddDate(0, 0, -200), mid.AddDate(0, 0, -199)},                                     // a day no request uses
}

func build(q request) string {
	w := windows[q.Win]
	ctx := &shared.PlannerContext{
		From: w[0], To: w[1], IsCluster: q.Cluster, Type: q.Type,
		TimeSeriesGinTableName: "time_series_gin", TimeSeriesTableName: "time_series", TimeSeriesDistTableName: "time_series_dist",
	}
	sel := func() shared.SQLRequestPlanner {
		return clickhouse_planner.NewStreamSelectPlanner([]string{"zq_lbl"}, []string{"="}, []string{"v"})
	}
	var pl shared.SQLRequestPlanner
	switch q.Kind {
	case "date":
		return service.FormatFromDate(w[0])
	case "values":
		pl = clickhouse_planner.NewValuesPlanner(nil, "job")
	case "values_fp":
		pl = clickhouse_planner.NewValuesPlanner(sel(), "job")
	case "series":
		pl = clickhouse_planner.NewSeriesPlanner(sel())
	case "tsinit":
		pl = clickhouse_planner.NewTimeSeriesInitPlanner()
	default:
		panic("kind " + q.Kind)
	}
	s, err := pl.Process(ctx)
	if err != nil {
		return "ERROR " + err.Error()
	}
	str, err := s.String(sql.DefaultCtx())
	if err != nil {
		return "ERROR " + err.Error()
	}
	return str
}

type scenario struct {
	name    string
	threads [][]request
}

func (s *scenario) Name() string { return s.name }

type obs struct {
	want, got, after [][]string
}

// prime drives any last-value memo of the helpers into one known state, so that an execution does not depend on the
// executions the worker process ran before it
func prime() {
	for _, k := range []string{"date", "values_fp", "series", "tsinit"} {
		build(request{Kind: k, Win: "primer", Type: shared.SAMPLES_TYPE_BOTH})
	}
}

func (s *scenario) Run() any {
	o := &obs{want: make([][]string, len(s.threads)), got: make([][]string, len(s.threads)), after: make([][]string, len(s.threads))}
	prime()
	for i, th := range s.threads { // the sequential answers: every request alone
		for _, q := range th {
			prime()
			o.want[i] = append(o.want[i], build(q))
		}
	}
	prime()
	var wg vsync.WaitGroup
	for i := range s.threads {
		i := i
		o.got[i] = make([]string, len(s.threads[i]))
		wg.Add(1)
		sched.GoNamed(fmt.Sprintf("req%d", i), false, func() {
			defer wg.Done()
			for j, q := range s.threads[i] {
				o.got[i][j] = build(q)
			}
		})
	}
	wg.Wait()
	for i, th := range s.threads { // the same requests once more, one after the other, no primer in between
		for _, q := range th {
			o.after[i] = append(o.after[i], build(q))
		}
	}
	return o
}

func diff(a, b string) string {
	i := 0
	for i < len(a) && i < len(b) && a[i] == b[i] {
		i++
	}
	lo := i - 40
	if lo < 0 {
		lo = 0
	}
	cut := func(s string) string {
		hi := i + 30
		if hi > len(s) {
			hi = len(s)
		}
		return s[lo:hi]
	}
	return fmt.Sprintf("alone: …%s…  here: …%s…", cut(a), cut(b))
}

func (s *scenario) Check(x any, res *sched.Result) (string, []sched.Finding) {
	o, _ := x.(*obs)
	if res.Failure != "" || o == nil {
		cls := "planner_" + strings.SplitN(res.Failure, ":", 2)[0]
		return res.Failure, []sched.Finding{{Class: strings.ReplaceAll(cls, " ", "_"), What: fmt.Sprintf("%s; unfinished=%v", res.Failure, res.Unfinished)}}
	}
	var fs []sched.Finding
	var sb strings.Builder
	for i, th := range s.threads {
		for j, q := range th {
			c, a := o.got[i][j] == o.want[i][j], o.after[i][j] == o.want[i][j]
			fmt.Fprintf(&sb, "%v%v", map[bool]string{true: "=", false: "X"}[c], map[bool]string{true: "=", false: "X"}[a])
			if !c {
				fs = append(fs, sched.Finding{Class: "concurrent_request_got_other_statement_than_alone@" + q.Kind,
					What: fmt.Sprintf("thread %d request %d (%s, window %s..%s): statement built while other requests were in flight differs from the one built alone; %s",
						i, j, q, windows[q.Win][0].Format(time.RFC3339), windows[q.Win][1].Format(time.RFC3339), diff(o.want[i][j], o.got[i][j]))})
			}
			if !a {
				fs = append(fs, sched.Finding{Class: "request_after_concurrent_history_got_other_statement_than_fresh@" + q.Kind,
					What: fmt.Sprintf("thread %d request %d (%s) asked again sequentially after the concurrent phase: %s", i, j, q, diff(o.want[i][j], o.after[i][j]))})
			}
		}
		sb.WriteString("|")
	}
	return s.name + " => " + sb.String(), fs
}

func scenarios() []sched.Scenario {
	var out []sched.Scenario
	add := func(name string, th ...[]request) { out = append(out, &scenario{name: name, threads: th}) }
	L, M := uint8(shared.SAMPLES_TYPE_LOGS), uint8(shared.SAMPLES_TYPE_METRICS)
	pairs := [][2]string{{"prev", "next"}, {"leap", "march"}, {"prev", "early"}, {"cross", "next"}, {"early", "next"}}
	for _, k := range []string{"date", "values", "values_fp", "series", "tsinit"} {
		for _, p := range pairs {
			a, b := request{k, p[0], L, false}, request{k, p[1], M, true}
			n := k + "/" + p[0] + "+" + p[1]
			add(n+"/2x1", []request{a}, []request{b})
			if k == "date" || k == "values" || k == "tsinit" {
				add(n+"/2x2", []request{a, a}, []request{b, b})
				add(n+"/3x1", []request{a}, []request{b}, []request{b})
			}
		}
	}
	// mixed kinds: a label-values request next to a series request and a stream-selector fetch
	add("mixed/values+series", []request{{"values", "prev", L, false}}, []request{{"series", "next", M, false}})
	add("mixed/tsinit+values_fp", []request{{"tsinit", "leap", M, true}}, []request{{"values_fp", "march", L, false}})
	add("mixed/date+values+tsinit", []request{{"date", "prev", L, false}}, []request{{"values", "next", L, true}}, []request{{"tsinit", "next", M, false}})
	return out
}

var all []sched.Scenario

func lookup(n string) sched.Scenario {
	for _, s := range all {
		if s.Name() == n {
			return s
		}
	}
	return nil
}

func main() {
	all = scenarios()
	if sched.IsWorker() {
		sched.WorkerMain(lookup)
		return
	}
	r := ev.StartPart("C13", os.Getenv("VERIF_PART"), "model_checking", 30*time.Second, 5*time.Minute)
	r.Rule = "C13S: stateless DFS (engine E1, delay-bounded, scheduling points at atomic / lock operations and before every statement of the instrumented planner helpers) over 2-3 concurrent requests for windows on different UTC days building their real index statements; oracle: every statement text equals the one the request gets alone, also when asked again after the concurrent phase"
	if r.Replay != "" {
		replay(r)
		return
	}
	b := sched.Bounds{Preempt: 2, Faults: 0, Timers: 0, Horizon: 5000}
	if r.Thorough() {
		b.Preempt = 3
	}
	t0 := time.Now()
	st, ex, left := sched.Explore(all, b, runtime.NumCPU(), r.Deadline, 20)
	fmt.Printf("[C13S] scenarios=%d executions=%d outcomes=%d completed=%v left=%d %.1fs\n", len(all), st.Executions, len(st.Outcomes), ex, left, time.Since(t0).Seconds())
	if !ex {
		r.Cap(fmt.Sprintf("C13S cut by the deadline (%d subtrees unexplored)", left))
	}
	if st.Diverged > 0 || st.Unreproducible > 0 {
		r.Cap(fmt.Sprintf("%d executions diverged from their prefix and %d findings did not reproduce (uncaptured nondeterminism; nothing was concluded from them): %v", st.Diverged, st.Unreproducible, st.Notes))
	}
	r.AddEval(st.Executions)
	r.States += st.Points
	r.Transitions += st.Steps
	r.TracesValidated += st.Executions
	for k := range st.Outcomes {
		r.Distinct("c13s:" + k)
	}
	r.Extra["c13s"] = map[string]any{"scenarios": len(all), "bounds": b, "executions": st.Executions, "completed": ex,
		"distinct_outcomes": len(st.Outcomes), "max_points": st.MaxPoints}
	r.Sample(map[string]any{"c13s_scenario": all[1].Name()})
	for _, v := range st.Violations {
		r.Violate(v.Class, v.Scn+": "+v.What, v)
	}
	r.Finish()
}

func replay(r *ev.Run) {
	rp, res, outcome, fs, err := sched.ReplayFile(r.Replay, lookup)
	if err != nil {
		ev.Fatal("replay: %v", err)
	}
	fmt.Println(strings.Join(res.Trace, "\n"))
	fmt.Println("outcome:", outcome, "failure:", res.Failure)
	r.AddEval(1)
	r.States, r.Transitions, r.TracesValidated = int64(len(res.Points)), int64(res.Steps), 1
	for _, f := range fs {
		r.Violate(f.Class, f.What, rp)
	}
	r.Finish()
}
