# instrument the planner helpers the index date bounds and the signal-type filter come from, for engine E1
# (C13S: two or three requests for windows on different UTC days build their statements concurrently); sourced by bin/check
go build -modfile="$scratch/mod/go.mod" -o "$scratch/bin/rewrite" ./mc/rewrite || return 1
d=reader/logql/logql_transpiler_v2/clickhouse_planner
files="$d/sql_misc.go $d/planner_values.go $d/planner_series.go $d/planner_time_series_init.go $d/planner_stream_select.go reader/service/utils.go"
"$scratch/bin/rewrite" -repo "$VERIF_REPO" -out "$scratch/inst" -overlay "$scratch/overlay.json" $files \
   2>"$scratch/rewrite.log" || { cat "$scratch/rewrite.log" >&2; return 1; }
