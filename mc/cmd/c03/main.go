// C03 — Log and metric ingest decodes every entry to exactly one faithful row.
//
// Bounded-exhaustive input enumeration against a value-level reference model (verif/mc/ingestref): request
// bodies are rendered from a description []Stream{labels, []Entry{ts, line, value, type}} for every protocol and
// every equivalent spelling, fed to the real exported parsers, and the concatenation of all sample chunks is
// compared as a multiset of (fingerprint, timestamp_ns, string, value, type) with the description.
package main

import (
	"encoding/json"
	"fmt"
	"hash/fnv"
	"os"
	"runtime"
	"sort"
	"strings"
	"sync"
	"sync/atomic"
	"time"

	"verif/mc/ev"
	ir "verif/mc/ingestref"
)

const T0 = int64(1700000000) * 1e9 // 2023-11-14T22:13:20Z

// Spec is the small, JSON-able description of one case; streams and body are rebuilt from it (replay).
type Spec struct {
	Space   string  `json:"space"` // small | count | bytes
	Proto   string  `json:"proto"`
	Opt     ir.Opt  `json:"opt"`
	Labels  []int   `json:"labels"`             // per stream: index into the protocol's label-set list
	Shape   [][]int `json:"shape,omitempty"`    // small: per stream, entry-variant indexes
	Counts  []int   `json:"counts,omitempty"`   // count: entries per stream
	Pattern int     `json:"pattern,omitempty"`  // count: 0 first kind only, 1 kinds cycle entry by entry
	Lens    [][]int `json:"lens,omitempty"`     // bytes: per stream, line-length class of each entry
	SameTs  bool    `json:"same_ts,omitempty"`  // all entries of a stream share one timestamp (and so may be identical)
	Seq     [][]int `json:"seq,omitempty"`      // fields: per record, the value index of every field dimension (last: line variant)
	LineLen int     `json:"line_len,omitempty"` // count: every log line is unique and this long (bodies that cross 1 MiB by repetition)
	// special: one label set that contains a name the code treats specially (collected from the decoder sources) at
	// position Pos (0 first, 1 middle, 2 last), said in a shape that makes the decoder call the row builder several
	// times for it: Rep occurrences of the stream/series/line, N entries each (Influx: N numeric fields on the line,
	// 0 = a log line), Pre points of another series in front (remote-write: moves the cross-series flush counter)
	// sweep: one stream of N regular fixed-size records whose first label value is padded by Pad bytes, so that the
	// record boundaries (and every field of a record) sweep across byte offset Limit of the body
	// history: the body is decoded AFTER another one in the same process (run serially, nothing in between); the rows
	// must be exactly those of a fresh process.  Prev is a full case, PrevRaw a raw (malformed) body for the same decoder.
	Prev    *Spec  `json:"prev,omitempty"`
	PrevRaw string `json:"prev_raw,omitempty"`
	// instant: one stream with one log entry at T0 + ShiftS seconds + FracNs nanoseconds (the spelling is Opt.TsFmt)
	ShiftS int `json:"shift_s,omitempty"`
	FracNs int `json:"frac_ns,omitempty"`
	Limit   int    `json:"limit,omitempty"`
	Pad     int    `json:"pad,omitempty"`
	Special string `json:"special,omitempty"`
	Pos     int    `json:"pos,omitempty"`
	Rep     int    `json:"rep,omitempty"`
	N       int    `json:"n,omitempty"`
	Pre     int    `json:"pre,omitempty"`
}

// ---------------------------------------------------------------------------------------------------------
// "fields" space: every request field a decoder turns into a label (list made by reading each Decode, see NOTES.md)
// is a dimension with the values {absent, A, B}; a body is a SEQUENCE of 2-3 records (entries of a protocol whose
// entries are self-contained — Datadog logs objects, Influx lines, OTLP log records — or one-entry streams/series
// otherwise), so that state carried from one record to the next (un-reset fields, shared maps) shows as a row
// attributed to another stream.

type dim struct {
	Name string
	Vals [][]ir.Label // labels the field contributes; nil = the field is absent
}

func d3(name, a, b string) dim { return dim{name, [][]ir.Label{nil, L(name, a), L(name, b)}} }

var fieldBase = map[string][]ir.Label{"datadog_logs": L("type", "datadog")}

var fieldDims = map[string][]dim{
	"loki_json":    {d3("a", "x", "y"), d3("b", "x", "y"), d3("__ttl_days__", "7", "x")},
	"loki_proto":   {d3("a", "x", "y"), d3("b", "x", "y"), d3("__ttl_days__", "7", "x")},
	"remote_write": {d3("__name__", "m", "n"), d3("a", "x", "y"), d3("b", "x", "y")},
	"influx": {{"measurement", [][]ir.Label{L("measurement", "m"), L("measurement", "n")}}, d3("host", "a", "b"), d3("dc", "x", "y"),
		d3("__name__", "usage", "idle")}, // __name__ absent: the line carries the string field `message`, else one numeric field
	"datadog_logs": {d3("ddsource", "src", "src2"), d3("service", "s", "s2"), d3("hostname", "h", "h2"), d3("source_type", "st", "st2"),
		{"ddtags", [][]ir.Label{nil, L("env", "prod"), L("env", "dev", "ver", "v1.2")}}},
	"datadog_series": {{"metric", [][]ir.Label{L("__name__", "m"), L("__name__", "n")}},
		{"resources[0]", [][]ir.Label{nil, L("resource1_type", "host", "resource1_name", "h1"), L("resource1_type", "host", "resource1_name", "h2")}},
		{"resources[1]", [][]ir.Label{nil, L("resource2_name", "z")}}},
	"otlp_logs": {d3("level", "info", "warn"), d3("r", "x", "y"), d3("scp_s", "x", "y"), d3("res_q", "x", "y")},
}

var fieldLines = []string{"abc", ""}

func buildFields(s Spec, p *ir.Proto) ([]ir.Stream, error) {
	dims := fieldDims[s.Proto]
	st := step(p, s.Opt)
	var streams []ir.Stream
	for i, rec := range s.Seq {
		if len(rec) != len(dims)+1 {
			return nil, fmt.Errorf("record %d has %d indexes, want %d", i, len(rec), len(dims)+1)
		}
		labels := append([]ir.Label{}, fieldBase[s.Proto]...)
		for di, d := range dims {
			if rec[di] < 0 || rec[di] >= len(d.Vals) {
				return nil, fmt.Errorf("dimension %s has no value %d", d.Name, rec[di])
			}
			labels = append(labels, d.Vals[rec[di]]...)
		}
		ts := T0 + int64(i+1)*st
		metric := !strings.Contains(p.Kinds, "l") || (p == ir.Influx && influxMetricStream(labels))
		e := ir.Entry{TsNs: ts, Line: fieldLines[rec[len(dims)]%len(fieldLines)], Type: ir.TypeLog}
		if metric {
			e = ir.Entry{TsNs: ts, Value: 1.5 + float64(i), Type: ir.TypeMetric}
		}
		streams = append(streams, ir.Stream{Labels: labels, Entries: []ir.Entry{e}})
	}
	return streams, nil
}

// fieldVariants: every assignment of a value index to every dimension (+ line variant); reduced = {first two values}.
func fieldVariants(proto string, reduced bool) [][]int {
	dims := fieldDims[proto]
	sizes := make([]int, len(dims)+1)
	for i, d := range dims {
		sizes[i] = len(d.Vals)
		if reduced && sizes[i] > 2 {
			sizes[i] = 2
		}
	}
	sizes[len(dims)] = len(fieldLines)
	if !strings.Contains(ir.ProtoByName(proto).Kinds, "l") {
		sizes[len(dims)] = 1
	}
	var out [][]int
	cur := make([]int, len(sizes))
	for {
		out = append(out, append([]int{}, cur...))
		k := 0
		for k < len(cur) {
			cur[k]++
			if cur[k] < sizes[k] {
				break
			}
			cur[k] = 0
			k++
		}
		if k == len(cur) {
			break
		}
	}
	return out
}

func fieldRenderings(p *ir.Proto) []ir.Opt {
	switch p {
	case ir.OTLPLogs:
		var out []ir.Opt
		for _, pack := range []bool{true, false} {
			for _, oe := range []bool{false, true} {
				for _, ob := range []bool{false, true} {
					out = append(out, ir.Opt{ByName: true, Pack: pack, OmitEmpty: oe, OmitBody: ob})
				}
			}
		}
		return out
	case ir.DatadogLogs:
		return []ir.Opt{{}, {OmitBody: true}, {KeyRot: 3, OmitBody: true, Unknown: true}}
	case ir.RemoteWrite:
		return []ir.Opt{{}, {Reverse: true}}
	case ir.Influx:
		return []ir.Opt{{Precision: time.Nanosecond}, {Precision: time.Second, MergeFields: true}}
	}
	return renderings(p, 3, false)
}

func L(kv ...string) []ir.Label {
	var l []ir.Label
	for i := 0; i < len(kv); i += 2 {
		l = append(l, ir.Label{Name: kv[i], Value: kv[i+1]})
	}
	return l
}

var long101 = strings.Repeat("v", 101)

// labelSets: the label alphabet of each protocol (names {a, b, __ttl_days__, names needing sanitisation} x values
// {"", x, >100 bytes, UTF-8, control bytes}, in the vocabulary the protocol can say).
var labelSets = map[string][][]ir.Label{
	"loki_json": {
		L("a", "x"), L("b", "x"), L("a", ""), L("a", "x", "b", "y"), L("a-b", "x"), L("0a", "x"),
		L("a", "x", "__ttl_days__", "7"), L("a", long101), L("a", "é✓"), L("a", "\x07\x00 \"q\\"),
		L("__ttl_days__", "x", "b", "y"), L(),
	},
	"loki_proto": {
		L("a", "x"), L("b", "x"), L("a", ""), L("a", "x", "b", "y"), L("a", "x", "__ttl_days__", "7"), L("a", long101),
		L("a", "é✓"), L("a", "\x07\x00 \"q\\"), L("__ttl_days__", "x", "b", "y"),
	},
	"remote_write": {
		L("__name__", "m", "a", "x"), L("__name__", "m", "a", "y"), L("__name__", "n"), L("__name__", "m", "a-b", "x"),
		L("__name__", "m", "a", ""), L("__name__", "m", "a", long101), L("__name__", "m", "a", "é✓"),
		L("__name__", "m", "a", "\x07\x00 \"q\\"), L("__name__", "m", "__ttl_days__", "7"), L(),
	},
	"influx": {
		L("measurement", "m"), L("measurement", "m", "host", "a"), L("measurement", "m m", "host", "a,b=c d"),
		L("measurement", "m", "host", long101), L("measurement", "m", "h-t", "é✓"), L("measurement", "m", "__ttl_days__", "7"),
		L("measurement", "cpu", "__name__", "usage"), L("measurement", "cpu", "__name__", "idle"),
		L("measurement", "cpu", "host", "a", "__name__", "usage"), L("measurement", "cpu", "__name__", "us-age"),
	},
	"datadog_logs": {
		L("type", "datadog"), L("type", "datadog", "service", "s"), L("type", "datadog", "source_type", "st"),
		L("type", "datadog", "ddsource", "src", "hostname", "h"), L("type", "datadog", "env", "prod"),
		L("type", "datadog", "env", "prod", "ver", "v1.2", "service", "s"), L("type", "datadog", "service", long101),
		L("type", "datadog", "source_type", "other", "env", "prod"),
	},
	"datadog_series": {
		L("__name__", "m"), L("__name__", "n"), L("__name__", "m", "resource1_type", "host", "resource1_name", "h1"),
		L("__name__", "m", "resource1_name", "h1", "resource2_name", "h2"), L("__name__", "é✓ \"q\\"), L("__name__", long101),
	},
	"otlp_logs": {
		L("a", "x"), L("b", "x"), L("a", "x", "b", "y"), L("a", "true"), L("a", "42"), L("a", "1.5"), L("a", `["p","q"]`),
		L("a", `{"k":"v"}`), L("a", "aGk="), L("a.b", "x"), L("0a", "x"), L("a", "x", "level", "info"), L("a", long101), L(),
		L("a", "x", "b", "y", "c", "z"),
	},
}

// entry variants per protocol (small space).  kind: l log, m metric, b both.
type variant struct {
	kind  byte
	line  string
	value float64
}

var variants = map[string][]variant{
	"loki_json":      {{'l', "", 0}, {'l', "abc", 0}, {'m', "", 1.5}, {'b', "", 2}, {'b', "abc", -0.5}},
	"loki_proto":     {{'l', "", 0}, {'l', "abc", 0}, {'l', "q\"\\é\n", 0}},
	"remote_write":   {{'m', "", 1.5}, {'m', "", 0}, {'m', "", -2e21}},
	"influx":         {{'l', "", 0}, {'l', "abc", 0}, {'l', "q\"\\é", 0}, {'m', "", 1.5}, {'m', "", 4}},
	"datadog_logs":   {{'l', "", 0}, {'l', "abc", 0}, {'l', "q\"\\é\n", 0}},
	"datadog_series": {{'m', "", 1.5}, {'m', "", 0}, {'m', "", -2e21}},
	"otlp_logs":      {{'l', "", 0}, {'l', "abc", 0}, {'l', "q\"\\é\n", 0}},
}

const bigLine = 350 * 1024

var lineClasses = []int{0, 3, bigLine}
var bigLineText = strings.Repeat("L", bigLine)

func step(p *ir.Proto, o ir.Opt) int64 {
	s := int64(1)
	switch p {
	case ir.RemoteWrite, ir.DatadogLogs:
		s = 1e6
	case ir.DatadogSeries:
		s = 1e9
	case ir.Influx:
		if o.Precision > 0 {
			s = int64(o.Precision)
		}
	}
	return s
}

func mkEntry(v variant, ts int64) ir.Entry {
	switch v.kind {
	case 'l':
		return ir.Entry{TsNs: ts, Line: v.line, Type: ir.TypeLog}
	case 'm':
		return ir.Entry{TsNs: ts, Value: v.value, Type: ir.TypeMetric}
	}
	return ir.Entry{TsNs: ts, Line: v.line, Value: v.value, Type: ir.TypeBoth}
}

// influx streams are log or metric streams depending on the __name__ label
func influxMetricStream(l []ir.Label) bool {
	for _, x := range l {
		if x.Name == "__name__" {
			return true
		}
	}
	return false
}

// Build turns a Spec into (protocol, streams).
func Build(s Spec) (*ir.Proto, []ir.Stream, error) {
	p := ir.ProtoByName(s.Proto)
	if p == nil {
		return nil, nil, fmt.Errorf("unknown protocol %q", s.Proto)
	}
	if s.Space == "instant" {
		ls := labelSets[s.Proto]
		return p, []ir.Stream{{Labels: ls[s.Labels[0]%len(ls)], Entries: []ir.Entry{{TsNs: T0 + int64(s.ShiftS)*1e9 + int64(s.FracNs), Line: "at the instant", Type: ir.TypeLog}}}}, nil
	}
	if s.Space == "sweep" {
		return p, buildSweep(p, s.N, s.Pad, s.LineLen, s.Opt), nil
	}
	if s.Space == "special" {
		streams, err := buildSpecial(s, p)
		return p, streams, err
	}
	if s.Space == "fields" {
		streams, err := buildFields(s, p)
		return p, streams, err
	}
	ls := labelSets[s.Proto]
	st := step(p, s.Opt)
	var streams []ir.Stream
	k := int64(0)
	n := len(s.Labels)
	for i := 0; i < n; i++ {
		if s.Labels[i] < 0 || s.Labels[i] >= len(ls) {
			return nil, nil, fmt.Errorf("label set index out of range")
		}
		str := ir.Stream{Labels: ls[s.Labels[i]]}
		ts := func() int64 {
			if s.SameTs {
				return T0 + int64(i+1)*st
			}
			k++
			return T0 + k*st
		}
		switch s.Space {
		case "small":
			for _, vi := range s.Shape[i] {
				str.Entries = append(str.Entries, mkEntry(variants[s.Proto][vi], ts()))
			}
		case "count":
			vs := variants[s.Proto]
			if p == ir.Influx {
				if influxMetricStream(str.Labels) {
					vs = vs[3:]
				} else {
					vs = vs[:3]
				}
			}
			str.Entries = make([]ir.Entry, 0, s.Counts[i])
			for j := 0; j < s.Counts[i]; j++ {
				v := vs[0]
				if s.Pattern == 1 {
					v = vs[j%len(vs)]
				}
				if v.kind != 'l' {
					v.value = float64(k%977) + v.value
				} else if v.line != "" {
					v.line = fmt.Sprintf("%d", k%7)
					if s.LineLen > 0 {
						v.line = fmt.Sprintf("%08d-", k) + strings.Repeat("u", s.LineLen-9)
					}
				}
				str.Entries = append(str.Entries, mkEntry(v, ts()))
			}
		case "bytes":
			for _, lc := range s.Lens[i] {
				line := ""
				switch lineClasses[lc] {
				case 3:
					line = "abc"
				case bigLine:
					line = fmt.Sprintf("%04d", k) + bigLineText[4:] // unique, so that an overwritten chunk is visible by value
				}
				str.Entries = append(str.Entries, ir.Entry{TsNs: ts(), Line: line, Type: ir.TypeLog})
			}
		default:
			return nil, nil, fmt.Errorf("unknown space %q", s.Space)
		}
		streams = append(streams, str)
	}
	return p, streams, nil
}

// ---------------------------------------------------------------------------------------------------------
// verdict of one case

type verdict struct {
	skipped  bool   // inexpressible
	outcome  string // coverage class
	class    string // "" = held
	what     string
	bodyHash uint64
	rejected string // 4xx answer to a body of the enumerated grammar ("not supported": listed, not judged)
}

var fpref = ir.NewFPRef()

func expected(p *ir.Proto, streams []ir.Stream, carrySourceType bool, ttl uint16) ([]ir.Row, error) {
	var rows []ir.Row
	carried := ""
	for _, s := range streams {
		labels := s.Labels
		if carrySourceType { // deviant rule of D5: source_type survives from the previous array element
			own := ""
			for _, l := range labels {
				if l.Name == "source_type" {
					own = l.Value
				}
			}
			if own == "" && carried != "" && len(s.Entries) > 0 {
				labels = append(append([]ir.Label{}, labels...), ir.Label{Name: "source_type", Value: carried})
			}
			if own != "" && len(s.Entries) > 0 {
				carried = own
			}
		}
		if len(s.Entries) == 0 {
			continue
		}
		fp, err := fpref.FPWith(p, labels, ttl)
		if err != nil {
			return nil, err
		}
		for _, e := range s.Entries {
			rows = append(rows, ir.MkRow(fp, e))
		}
	}
	return rows, nil
}

// d4TypeCount is the length of the type column under the deviant rule of D4 (remote-write passes
// len(series.samples) types on a mid-series flush instead of len(flushed samples)).
func d4TypeCount(streams []ir.Stream) int {
	points, types := 0, 0
	for _, s := range streams {
		pending := 0
		for range s.Entries {
			pending++
			points++
			if points >= 1000 {
				types += len(s.Entries)
				points, pending = 0, 0
			}
		}
		types += pending
	}
	return types
}

func judge(s Spec) verdict {
	if s.Prev != nil { // history: decode the earlier body first, whatever becomes of it
		if pp, streams, err := Build(*s.Prev); err == nil {
			if body, err := pp.Render(streams, s.Prev.Opt); err == nil {
				pp.Parse(body, s.Prev.Opt, nil)
			}
		}
	}
	if s.PrevRaw != "" {
		if pp := ir.ProtoByName(s.Proto); pp != nil {
			pp.Parse([]byte(s.PrevRaw), s.Opt, nil)
		}
	}
	p, streams, err := Build(s)
	if err != nil {
		if strings.Contains(err.Error(), ir.ErrInexpressible.Error()) {
			return verdict{skipped: true}
		}
		ev.Fatal("bad spec %+v: %v", s, err)
	}
	body, err := p.Render(streams, s.Opt)
	if err != nil {
		if strings.Contains(err.Error(), ir.ErrInexpressible.Error()) {
			return verdict{skipped: true}
		}
		ev.Fatal("render %+v: %v", s, err)
	}
	h := fnv.New64a()
	h.Write([]byte(p.Name))
	h.Write([]byte{byte(s.Opt.TTLDays), byte(s.Opt.TTLDays >> 8), byte(s.Opt.Reader)}) // header and way of arrival are part of the case
	h.Write(body)
	v := verdict{bodyHash: h.Sum64()}
	out := p.Parse(body, s.Opt, nil)
	body = nil
	zero := false
	for _, st := range streams {
		if len(st.Entries) == 0 {
			zero = true
		}
	}
	if out.Err != nil {
		msg := out.Err.Error()
		if out.Status >= 400 && out.Status < 500 && s.Space == "sweep" && sweepShapeAccepted(p, s.Opt) {
			// The records of a sweep body are structurally identical for every padding, length and way of arrival, and
			// the three-record body of the same spelling is accepted: this rejection is not "shape not supported", it
			// depends on where a buffer boundary falls.
			v.outcome = fmt.Sprintf("%s:rejected_%d_by_alignment", p.Name, out.Status)
			v.class = "wellformed_body_rejected_depending_on_alignment_or_arrival:" + p.Name
			v.what = fmt.Sprintf("%s: %d regular records, padding %d, reader %s: answered %d %s although the same records are accepted in a 3-record body",
				p.Name, s.N, s.Pad, ir.ReaderName(s.Opt.Reader), out.Status, trunc(msg, 120))
			return v
		}
		if out.Status >= 400 && out.Status < 500 {
			v.outcome = fmt.Sprintf("%s:rejected_%d", p.Name, out.Status)
			v.rejected = fmt.Sprintf("%s %d %s", p.Name, out.Status, trunc(msg, 80))
			return v
		}
		v.outcome = p.Name + ":rejected_500"
		switch {
		case zero && strings.Contains(msg, "index out of range [0] with length 0"):
			v.class = "zero_entry_stream_rejected_fastfillarray:" + p.Name
		case p == ir.OTLPLogs && s.Opt.OmitEmpty && strings.Contains(msg, "nil pointer dereference"):
			v.class = "otlp_logs_unset_resource_or_scope_rejected"
		default:
			v.class = "wellformed_body_rejected_500:" + p.Name
		}
		v.what = fmt.Sprintf("%s: well-formed body answered with 500: %s", p.Name, trunc(msg, 120))
		return v
	}
	if len(out.Mutated) > 0 {
		v.outcome = p.Name + ":chunk_mutated"
		v.class = "chunk_mutated_after_handover:" + p.Name
		v.what = fmt.Sprintf("%s: %s (%d chunks)", p.Name, out.Mutated[0], len(out.Chunks))
		return v
	}
	if out.Shared != "" {
		v.outcome = p.Name + ":chunks_share_array"
		v.class = "chunks_share_backing_array:" + p.Name
		v.what = fmt.Sprintf("%s: %s (%d chunks): the earlier chunk is overwritten while its consumer still holds it", p.Name, out.Shared, len(out.Chunks))
		return v
	}
	if len(out.Problems) > 0 {
		v.outcome = p.Name + ":wrong_field"
		v.class = "chunk_in_wrong_response_field:" + p.Name
		v.what = fmt.Sprintf("%s: %s", p.Name, strings.Join(out.Problems, "; "))
		return v
	}
	nonRect := out.Rectangular()
	if nonRect != "" {
		v.class = "nonrectangular_chunk:" + p.Name
		if p == ir.RemoteWrite && out.OnlyTypeColumnOff() && out.TypeCount() == d4TypeCount(streams) && out.TypeCount() > len(out.Rows()) {
			v.class = "remote_write_type_column_sized_by_series"
		}
		v.what = fmt.Sprintf("%s: per-row arrays of unequal length: %s", p.Name, nonRect)
	}
	want, err := expected(p, streams, false, s.Opt.TTLDays)
	if err != nil {
		if strings.Contains(err.Error(), ir.ErrInexpressible.Error()) {
			ev.Fatal("reference body for %+v cannot be rendered: %v", s, err)
		}
		// the plainest body there is — one stream, one entry — was not decoded to exactly one row
		v.outcome = p.Name + ":reference_body_mishandled"
		v.class = "single_stream_single_entry_body_mishandled:" + p.Name
		v.what = fmt.Sprintf("%s: %v", p.Name, err)
		return v
	}
	got := out.Rows()
	d, missing, extra := ir.Diff(want, got)
	v.outcome = fmt.Sprintf("%s:ok:%dchunks", p.Name, len(out.Chunks))
	if d == "" {
		if v.class != "" {
			v.outcome = fmt.Sprintf("%s:nonrect:%dchunks", p.Name, len(out.Chunks))
		}
		return v
	}
	v.outcome = fmt.Sprintf("%s:rows_differ:%dchunks", p.Name, len(out.Chunks))
	cls := classifyDiff(missing, extra)
	if p == ir.DatadogLogs && cls == "entry_attributed_to_other_stream" {
		if w2, err := expected(p, streams, true, s.Opt.TTLDays); err == nil {
			if d2, _, _ := ir.Diff(w2, got); d2 == "" {
				cls = "datadog_logs_source_type_carried_over"
			}
		}
	}
	if v.class != "" { // a non-rectangular chunk AND wrong rows: report the rows (the sharper statement)
		v.what += "; "
	}
	v.class = cls + ":" + p.Name
	if cls == "datadog_logs_source_type_carried_over" {
		v.class = cls
	}
	v.what += fmt.Sprintf("%s: %s", p.Name, d)
	return v
}

// classifyDiff names the difference by what distinguishes the missing rows from the unexpected ones.
func classifyDiff(missing, extra []ir.Row) string {
	if len(extra) == 0 {
		return "entry_dropped"
	}
	if len(missing) == 0 {
		return "entry_duplicated_or_invented"
	}
	if len(missing) != len(extra) {
		return "rows_differ"
	}
	same := func(f func(a, b ir.Row) bool) bool {
		used := make([]bool, len(extra))
	outer:
		for _, m := range missing {
			for j, e := range extra {
				if !used[j] && f(m, e) {
					used[j] = true
					continue outer
				}
			}
			return false
		}
		return true
	}
	switch {
	case same(func(a, b ir.Row) bool { b.FP = a.FP; return a == b }):
		return "entry_attributed_to_other_stream"
	case same(func(a, b ir.Row) bool { b.Type = a.Type; return a == b }):
		return "entry_given_wrong_type"
	case same(func(a, b ir.Row) bool { b.TsNs = a.TsNs; return a == b }):
		return "entry_given_wrong_timestamp"
	case same(func(a, b ir.Row) bool { b.Msg, b.Val = a.Msg, a.Val; return a == b }):
		return "entry_given_wrong_payload"
	}
	return "rows_differ"
}

// specialBase: the plain labels around the special one, in the protocol's vocabulary (nil: the protocol cannot carry a
// label of an arbitrary name).
func specialBase(p *ir.Proto) (base, other []ir.Label) {
	switch p {
	case ir.LokiJSON, ir.LokiProto, ir.OTLPLogs:
		return L("a", "x", "b", "y"), L("a", "z")
	case ir.RemoteWrite:
		return L("a", "x", "b", "y"), L("__name__", "o", "a", "z")
	case ir.Influx:
		return L("measurement", "m", "a", "x", "b", "y"), L("measurement", "o")
	case ir.DatadogLogs:
		return L("type", "datadog", "env", "prod", "ver", "v1"), L("type", "datadog", "env", "dev")
	case ir.DatadogSeries:
		return L("__name__", "m", "resource1_a", "x"), L("__name__", "o")
	}
	return nil, nil
}

func buildSpecial(s Spec, p *ir.Proto) ([]ir.Stream, error) {
	base, other := specialBase(p)
	labels := append([]ir.Label{}, base...)
	if s.Special != "" {
		for _, l := range base {
			if l.Name == s.Special {
				return nil, ir.ErrInexpressible // already a structural label of this protocol's rendering
			}
		}
		if p == ir.DatadogSeries || (p == ir.Influx && s.Special == "__name__") {
			return nil, ir.ErrInexpressible
		}
		val := "sv"
		if s.Special == "__ttl_days__" {
			val = "7"
		}
		lo := 0
		if p == ir.Influx || p == ir.DatadogLogs {
			lo = 1 // the first label is the measurement / the endpoint's type label
		}
		at := map[int]int{0: lo, 1: (lo + len(labels) + 1) / 2, 2: len(labels)}[s.Pos]
		labels = append(labels[:at:at], append([]ir.Label{{Name: s.Special, Value: val}}, labels[at:]...)...)
	}
	st := step(p, s.Opt)
	k := int64(0)
	ts := func() int64 { k++; return T0 + k*st }
	metric := !strings.Contains(p.Kinds, "l")
	entry := func(i int) ir.Entry {
		if metric {
			return ir.Entry{TsNs: ts(), Value: float64(i%977) + 0.5, Type: ir.TypeMetric}
		}
		return ir.Entry{TsNs: ts(), Line: fmt.Sprintf("line %d", i), Type: ir.TypeLog}
	}
	var streams []ir.Stream
	if s.Pre > 0 {
		o := ir.Stream{Labels: other}
		for i := 0; i < s.Pre; i++ {
			o.Entries = append(o.Entries, entry(i))
		}
		streams = append(streams, o)
	}
	for r := 0; r < s.Rep; r++ {
		if p == ir.Influx && s.N > 0 { // one line with N numeric fields = N streams that differ in __name__, same instant
			t := ts()
			for f := 0; f < s.N; f++ {
				l := append(append([]ir.Label{}, labels...), ir.Label{Name: "__name__", Value: fmt.Sprintf("f%d", f+1)})
				streams = append(streams, ir.Stream{Labels: l, Entries: []ir.Entry{{TsNs: t, Value: float64(f) + 1.5, Type: ir.TypeMetric}}})
			}
			continue
		}
		str := ir.Stream{Labels: labels}
		n := s.N
		if p == ir.Influx {
			n = 1
		}
		for i := 0; i < n; i++ {
			str.Entries = append(str.Entries, entry(r*n+i))
		}
		streams = append(streams, str)
	}
	return streams, nil
}

// buildSweep: N regular records of fixed width (fixed-width timestamps, lines and values) in one stream whose first
// label value carries Pad filler bytes.
// lineFill extra filler bytes make the record size a power of two, so that the bytes one buffer further are the same
// field of another record.
func buildSweep(p *ir.Proto, n, pad, lineFill int, o ir.Opt) []ir.Stream {
	fill := "x" + strings.Repeat("p", pad)
	var labels []ir.Label
	switch p {
	case ir.RemoteWrite:
		labels = L("__name__", "m", "a", fill)
	case ir.Influx:
		labels = L("measurement", "m", "a", fill)
	case ir.DatadogLogs:
		labels = L("type", "datadog", "service", fill)
	case ir.DatadogSeries:
		labels = L("__name__", fill)
	default:
		labels = L("a", fill)
	}
	st := step(p, o)
	str := ir.Stream{Labels: labels, Entries: make([]ir.Entry, 0, n)}
	for i := 0; i < n; i++ {
		ts := T0 + int64(i+1)*st
		if strings.Contains(p.Kinds, "l") {
			str.Entries = append(str.Entries, ir.Entry{TsNs: ts, Line: fmt.Sprintf("record %08d of the sweep", i) + strings.Repeat(".", lineFill), Type: ir.TypeLog})
		} else {
			str.Entries = append(str.Entries, ir.Entry{TsNs: ts, Value: float64(1000+i%9000) + 0.5, Type: ir.TypeMetric})
		}
	}
	return []ir.Stream{str}
}

// sweepRenderings: the spellings whose records differ in layout (both Loki JSON layouts, every entry key order of the
// entries layout in thorough).
func sweepRenderings(p *ir.Proto, thorough bool) []ir.Opt {
	switch p {
	case ir.LokiJSON:
		out := []ir.Opt{{Layout: 0}, {Layout: 1}, {Layout: 1, Perm: 2, TsKey: 1, TsFmt: 1}}
		if thorough {
			for perm := 0; perm < 6; perm++ {
				for tf := 0; tf < 3; tf++ {
					out = append(out, ir.Opt{Layout: 1, Perm: perm, TsKey: perm % 2, TsFmt: tf, EntriesFirst: perm%2 == 1})
				}
			}
		}
		return out
	case ir.Influx:
		return []ir.Opt{{Precision: time.Nanosecond}, {Precision: time.Second}}
	case ir.DatadogLogs:
		return []ir.Opt{{}, {KeyRot: 3}}
	case ir.DatadogSeries:
		return []ir.Opt{{}, {EntriesFirst: true, KeyRot: 1}}
	}
	return []ir.Opt{{}}
}

var specialLabelNames, specialContexts []string
var sizeLimits []int

var sweepAccepted sync.Map

// sweepShapeAccepted: is the three-record sweep body of this spelling, handed over whole, accepted?
func sweepShapeAccepted(p *ir.Proto, o ir.Opt) bool {
	o.Reader = 0
	key := fmt.Sprintf("%s|%+v", p.Name, o)
	if v, ok := sweepAccepted.Load(key); ok {
		return v.(bool)
	}
	ok := false
	if body, err := p.Render(buildSweep(p, 3, 0, 0, o), o); err == nil {
		out := p.Parse(body, o, nil)
		ok = out.Err == nil && len(out.Rows()) == 3
	}
	sweepAccepted.Store(key, ok)
	return ok
}

func maxInt(a, b int) int {
	if a > b {
		return a
	}
	return b
}

func trunc(s string, n int) string {
	if len(s) > n {
		return s[:n] + "..."
	}
	return s
}

// ---------------------------------------------------------------------------------------------------------
// enumeration

// shapes(n, nv, maxPer): all assignments of entry-variant lists (length 0..maxPer, variants 0..nv-1) to n streams.
func shapes(n, nv, maxPer int) [][][]int {
	var lists [][]int
	var rec func(cur []int)
	rec = func(cur []int) {
		lists = append(lists, append([]int{}, cur...))
		if len(cur) == maxPer {
			return
		}
		for v := 0; v < nv; v++ {
			rec(append(cur, v))
		}
	}
	rec(nil)
	sort.SliceStable(lists, func(i, j int) bool { return len(lists[i]) < len(lists[j]) })
	var out [][][]int
	var rec2 func(cur [][]int)
	rec2 = func(cur [][]int) {
		if len(cur) == n {
			out = append(out, append([][]int{}, cur...))
			return
		}
		for _, l := range lists {
			rec2(append(cur, l))
		}
	}
	rec2(nil)
	return out
}

// renderings of a protocol: every equivalent spelling that is enumerated.  core = the product of the options that
// interact with entry decoding; extra = envelope / unknown-key variations on the default spelling.
func renderings(p *ir.Proto, nLabels int, full bool) []ir.Opt {
	var out []ir.Opt
	switch p {
	case ir.LokiJSON:
		for _, ef := range []bool{false, true} {
			for third := 0; third < 5; third++ {
				out = append(out, ir.Opt{Layout: 0, EntriesFirst: ef, Third: third})
			}
		}
		for _, ef := range []bool{false, true} {
			for perm := 0; perm < 6; perm++ {
				for tk := 0; tk < 2; tk++ {
					for tf := 0; tf < 3; tf++ {
						out = append(out, ir.Opt{Layout: 1, EntriesFirst: ef, Perm: perm, TsKey: tk, TsFmt: tf})
					}
				}
			}
		}
		for layout := 0; layout < 2; layout++ {
			out = append(out, ir.Opt{Layout: layout, Unknown: true}, ir.Opt{Layout: layout, Envelope: 1}, ir.Opt{Layout: layout, Envelope: 2},
				ir.Opt{Layout: layout, Envelope: 1, Unknown: true}, ir.Opt{Layout: layout, Envelope: 2, Unknown: true})
		}
		if !full {
			out = []ir.Opt{{Layout: 0}, {Layout: 0, EntriesFirst: true, Third: 1}, {Layout: 1}, {Layout: 1, EntriesFirst: true, Perm: 5, TsKey: 1, TsFmt: 1}}
		}
	case ir.LokiProto, ir.RemoteWrite:
		out = []ir.Opt{{}}
	case ir.Influx:
		for _, pr := range []time.Duration{time.Nanosecond, time.Microsecond, time.Millisecond, time.Second} {
			for _, mf := range []bool{false, true} {
				out = append(out, ir.Opt{Precision: pr, MergeFields: mf})
			}
		}
		if !full {
			out = []ir.Opt{{Precision: time.Nanosecond}, {Precision: time.Second, MergeFields: true}}
		}
	case ir.DatadogLogs:
		for rot := 0; rot < 7; rot++ {
			for _, u := range []bool{false, true} {
				out = append(out, ir.Opt{KeyRot: rot, Unknown: u})
			}
		}
		if !full {
			out = []ir.Opt{{}, {KeyRot: 3, Unknown: true}}
		}
	case ir.DatadogSeries:
		for rot := 0; rot < 3; rot++ {
			for _, ef := range []bool{false, true} {
				for _, u := range []bool{false, true} {
					out = append(out, ir.Opt{KeyRot: rot, EntriesFirst: ef, Unknown: u})
				}
			}
		}
		if !full {
			out = []ir.Opt{{}, {KeyRot: 2, EntriesFirst: true, Unknown: true}}
		}
	case ir.OTLPLogs:
		places := 1
		for i := 0; i < nLabels; i++ {
			places *= 3
		}
		for place := 0; place < places; place++ {
			for typed := 0; typed < 3; typed++ {
				for _, oe := range []bool{false, true} {
					for _, pe := range []bool{false, true} {
						for _, sv := range []bool{false, true} {
							out = append(out, ir.Opt{Place: place, Typed: typed, OmitEmpty: oe, PerEntry: pe, SevAsLevel: sv})
						}
						if typed == 0 { // all streams under one ResourceLogs, one ScopeLogs per stream
							out = append(out, ir.Opt{Place: place, OmitEmpty: oe, PerEntry: pe, OneRes: true})
						}
					}
				}
			}
		}
		if !full {
			out = []ir.Opt{{Place: places - 1}, {Place: 0, Typed: 1, PerEntry: true, SevAsLevel: true}, {Place: places / 2, OmitEmpty: true}, {Place: places - 1, OneRes: true}}
		}
	}
	return out
}

func maxLabels(p *ir.Proto, idx []int) int {
	m := 0
	for _, i := range idx {
		if n := len(labelSets[p.Name][i]); n > m {
			m = n
		}
	}
	return m
}

// enumerate sends every Spec of the tier to emit, in a fixed order.
func enumerate(thorough bool, emit func(Spec)) map[string]int64 {
	counts := map[string]int64{}
	send := func(sub string, s Spec) {
		counts[sub]++
		emit(s)
	}
	for _, p := range ir.Protocols {
		ls := labelSets[p.Name]
		nv := len(variants[p.Name])
		// ---- fields space: sequences of 2-3 records over every per-record field variant -------------------
		{
			red := fieldVariants(p.Name, true)
			full := fieldVariants(p.Name, false)
			pairsOver := red
			if thorough && len(full) <= 200 {
				pairsOver = full
			}
			for _, o := range fieldRenderings(p) {
				for _, r1 := range pairsOver {
					for _, r2 := range pairsOver {
						send("fields_pairs", Spec{Space: "fields", Proto: p.Name, Opt: o, Seq: [][]int{r1, r2}})
					}
				}
				// triples: one dimension at a time over all its values (the other fields absent / first value) ...
				dims := fieldDims[p.Name]
				for di := 0; di <= len(dims); di++ {
					n := len(fieldLines)
					if di < len(dims) {
						n = len(dims[di].Vals)
					}
					for code := 0; code < n*n*n; code++ {
						seq := make([][]int, 3)
						c := code
						for k := 0; k < 3; k++ {
							seq[k] = make([]int, len(dims)+1)
							seq[k][di] = c % n
							c /= n
						}
						send("fields_triples_one_dimension", Spec{Space: "fields", Proto: p.Name, Opt: o, Seq: seq})
					}
				}
				// ... and, thorough, every triple over the {absent, A} variants
				if thorough && len(red) <= 32 {
					for _, r1 := range red {
						for _, r2 := range red {
							for _, r3 := range red {
								send("fields_triples", Spec{Space: "fields", Proto: p.Name, Opt: o, Seq: [][]int{r1, r2, r3}})
							}
						}
					}
				}
			}
		}
		// ---- history space: body B decoded after body A in the same process must give the rows of a fresh process ----
		{
			// (h1) every decoder after every decoder: a small regular body after a small regular body (same / other labels),
			//      after a rejected body and after an oversized (multi-chunk) one
			o := sweepRenderings(p, false)[0]
			b := Spec{Space: "sweep", Proto: p.Name, Opt: o, N: 3}
			for _, q := range ir.Protocols {
				for _, pad := range []int{0, 5} {
					a := Spec{Space: "sweep", Proto: q.Name, Opt: sweepRenderings(q, false)[0], N: 2, Pad: pad}
					bb := b
					bb.Prev = &a
					send("history_after_another_body", bb)
				}
			}
			for _, raw := range []string{`{"streams":[{"stream":{"a":"x"},"values":[["not-a-time","l"]]}]}`, "\x00\xff garbage", `[{"message":1}]`, ""} {
				bb := b
				bb.PrevRaw = raw
				send("history_after_rejected_body", bb)
			}
			if strings.Contains(p.Kinds, "l") {
				big := Spec{Space: "count", Proto: p.Name, Opt: o, Labels: []int{0, 1, 3 % len(ls)}, Counts: []int{1400, 1400, 600}, LineLen: 400}
				if p == ir.DatadogLogs {
					big.Labels = []int{2, 4, 7}
				}
				if p == ir.Influx {
					big.Labels = []int{0, 1, 2}
				}
				bb := b
				bb.Prev = &big
				send("history_after_oversized_body", bb)
			}
		}
		if p == ir.LokiJSON {
			// (h2) timestamp spellings of the entries layout: A and B differ in one aspect — spelling (integer, RFC3339 Z,
			//      RFC3339 +02:00), fraction (none / nanoseconds), wall-clock second (B's wall-clock text equals A's, which
			//      with an offset means another instant, or not), label set (same / other), layout of A
			shifts := map[int]int{0: 0, 1: 0, 2: -7200} // the shift that makes a +02:00 spelling show the wall clock of T0
			for fa := 0; fa < 3; fa++ {
				for fb := 0; fb < 3; fb++ {
					for _, fracA := range []int{0, 123} {
						for _, fracB := range []int{0, 123, 120000000} {
							for _, sameWall := range []bool{true, false} {
								for _, lb := range []int{0, 1} {
									for _, layoutA := range []int{1, 0} {
										if layoutA == 0 && fa != 0 {
											continue
										}
										a := Spec{Space: "instant", Proto: p.Name, Opt: ir.Opt{Layout: layoutA, TsFmt: fa}, Labels: []int{0}, ShiftS: shifts[fa], FracNs: fracA}
										bs := Spec{Space: "instant", Proto: p.Name, Opt: ir.Opt{Layout: 1, TsFmt: fb}, Labels: []int{lb}, ShiftS: shifts[fb], FracNs: fracB}
										if !sameWall {
											bs.ShiftS += 61
										}
										bs.Prev = &a
										send("history_timestamp_spellings", bs)
									}
								}
							}
						}
					}
				}
			}
		}
		// ---- sweep space: how the body arrives, and record boundaries swept across every buffer size / limit the
		//      decoders use (collected from the sources) ------------------------------------------------------------
		for _, o := range sweepRenderings(p, thorough) {
			rec := func(n int) int {
				b, err := p.Render(buildSweep(p, n, 0, 0, o), o)
				if err != nil {
					ev.Fatal("sweep body of %s cannot be rendered: %v", p.Name, err)
				}
				return len(b)
			}
			recsize := (rec(40) - rec(8)) / 32
			if p.Snappy {
				recsize = 64 // compressed bodies are decoded into one buffer before the parser sees them: a coarse sweep suffices
			}
			if recsize > 96 {
				recsize = 96 // the padding travels in a label value, which is cut at 100 bytes
			}
			// second pass (log protocols, uncompressed): records filled up to a power-of-two size, so that what lies one
			// buffer further is the same field of another record (a stale buffer then yields a plausible wrong value)
			fills := []int{0}
			if strings.Contains(p.Kinds, "l") && !p.Snappy {
				pow := 64
				for pow < recsize {
					pow *= 2
				}
				if pow-recsize > 0 && pow <= 128 {
					fills = append(fills, pow-recsize)
				}
			}
			for _, fill := range fills {
				recsize := recsize + fill
				if recsize > 96 && fill == 0 {
					recsize = 96
				}
				for _, limit := range sizeLimits {
					if fill > 0 && (limit < 4096 || limit >= 1000000) {
						continue
					}
					n := (2*limit+2048)/maxInt(recsize, 24) + 2
					stepPad := 1
					switch {
					case p.Snappy:
						stepPad = 16
					case limit >= 1000000 && !thorough:
						stepPad = recsize/3 + 1 // quick: three alignments of the 1 MB bodies, the full sweep is in thorough
					}
					for pad := 0; pad < recsize; pad += stepPad {
						if pad > 96 {
							break // the padding travels in a label value, which is cut at 100 bytes
						}
						send("sweep_record_boundaries_across_limits", Spec{Space: "sweep", Proto: p.Name, Opt: o, Limit: limit, N: n, Pad: pad, LineLen: fill})
					}
				}
			}
			// reader kinds: every way a body can arrive x a small, a 4 KiB- and a 64 KiB-crossing body x three alignments
			for kind := 1; kind < ir.ReaderKinds; kind++ {
				oo := o
				oo.Reader = kind
				for _, n := range []int{3, 200, 2200} {
					for _, pad := range []int{0, recsize / 3, (2 * recsize) / 3} {
						if n == 2200 && kind == 1 && !thorough && pad > 0 {
							continue // one-byte reads of a 130 KiB body: one alignment in quick
						}
						send("arrival_reader_kinds", Spec{Space: "sweep", Proto: p.Name, Opt: oo, Limit: 0, N: n, Pad: pad})
					}
				}
			}
		}
		// ---- special space: names the code treats specially x position x shapes with several row-builder calls ----
		{
			ns := []int{1, 2, 3}
			pres := []int{0}
			reps := []int{1, 2, 3}
			if p == ir.RemoteWrite {
				ns = []int{1, 999, 1000, 1001, 1500, 2001}
				pres = []int{0, 1, 500}
				if !thorough {
					reps = []int{1, 2}
				}
			}
			if p == ir.Influx {
				ns = []int{0, 1, 2, 3}
			}
			o := ir.Opt{}
			if p == ir.Influx {
				o.MergeFields = true
			}
			names := append([]string{""}, specialLabelNames...)
			for _, name := range names {
				for pos := 0; pos < 3; pos++ {
					if name == "" && pos > 0 {
						continue
					}
					for _, ttl := range []uint16{0, 30} {
						for _, rep := range reps {
							for _, n := range ns {
								for _, pre := range pres {
									oo := o
									oo.TTLDays = ttl
									send("special_names_x_position_x_multicall", Spec{Space: "special", Proto: p.Name, Opt: oo, Special: name, Pos: pos, Rep: rep, N: n, Pre: pre})
									if p == ir.LokiJSON {
										oo.Layout = 1
										send("special_names_x_position_x_multicall", Spec{Space: "special", Proto: p.Name, Opt: oo, Special: name, Pos: pos, Rep: rep, N: n, Pre: pre})
									}
								}
							}
						}
					}
				}
			}
		}
		// ---- bodies that cross 1 MiB by repetition (>= 2 non-empty chunks, unique lines): a chunk must not change
		//      after hand-over, no two handed-over chunks may share a backing array ---------------------------------
		{
			tri3 := []int{0, 1, 3 % len(ls)}
			if p == ir.Influx {
				tri3 = []int{0, 1, 2}
			}
			if p == ir.DatadogLogs {
				tri3 = []int{2, 4, 7}
			}
			rs := renderings(p, maxLabels(p, tri3), false)
			if !thorough {
				rs = rs[:1]
				if p == ir.LokiJSON {
					rs = []ir.Opt{{Layout: 0}, {Layout: 1}}
				}
			}
			for _, o := range rs {
				if strings.Contains(p.Kinds, "l") {
					send("chunks_by_repetition", Spec{Space: "count", Proto: p.Name, Opt: o, Labels: tri3, Counts: []int{1400, 1400, 600}, LineLen: 400})
				}
				if strings.Contains(p.Kinds, "m") && p != ir.LokiJSON {
					mt := tri3
					if p == ir.Influx {
						mt = []int{6, 7, 8}
					}
					send("chunks_by_repetition", Spec{Space: "count", Proto: p.Name, Opt: o, Labels: mt, Counts: []int{22000, 22000, 3000}})
				}
			}
		}
		// ---- small space ------------------------------------------------------------------------------
		// (A1) one stream: every label set x every entry list (0..2 entries, every variant) x every rendering
		for li := range ls {
			for _, sh := range shapes(1, nv, 2) {
				for _, o := range renderings(p, len(ls[li]), true) {
					send("small_A1_1stream_labels_x_entries_x_renderings", Spec{Space: "small", Proto: p.Name, Opt: o, Labels: []int{li}, Shape: sh})
				}
			}
		}
		// (A2) two streams: every ordered pair of distinct label sets x entry lists over the first two variants x 2-4 renderings
		nv2 := 2
		if nv < 2 {
			nv2 = nv
		}
		for li := range ls {
			for lj := range ls {
				if li == lj {
					continue
				}
				maxPer := 2
				if !thorough {
					maxPer = 1 // quick: 0..1 entries per stream in the label-pair product (entry lists are covered by B and C)
				}
				for _, sh := range shapes(2, nv2, maxPer) {
					for _, o := range renderings(p, maxLabels(p, []int{li, lj}), false) {
						send("small_A2_2streams_labelpairs_x_entries", Spec{Space: "small", Proto: p.Name, Opt: o, Labels: []int{li, lj}, Shape: sh})
					}
				}
			}
		}
		// (B) two streams: two fixed label pairs x EVERY pair of entry lists (all variants) x every rendering,
		//     with distinct timestamps and with one timestamp per stream (identical entries must both survive)
		pairs := [][]int{{0, 1}, {3 % len(ls), 0}}
		if p == ir.Influx {
			pairs = [][]int{{0, 1}, {6, 7}, {1, 8}}
		}
		if p == ir.DatadogLogs {
			pairs = [][]int{{0, 1}, {2, 4}, {7, 2}}
		}
		for pi, pr := range pairs {
			// quick: the first pair with every rendering, the other pairs with the reduced rendering list
			full := thorough || pi == 0
			for _, sh := range shapes(2, nv, 2) {
				for _, o := range renderings(p, maxLabels(p, pr), full) {
					for _, same := range []bool{false, true} {
						if same && !thorough && (p == ir.LokiJSON || p == ir.OTLPLogs) && (o.Perm > 0 || o.Third > 0 || o.Typed > 0 || o.OneRes) {
							continue
						}
						send("small_B_2streams_entrylists_x_renderings", Spec{Space: "small", Proto: p.Name, Opt: o, Labels: pr, Shape: sh, SameTs: same})
					}
				}
			}
		}
		// (C) three streams: one label triple x every triple of entry lists over the first two variants x every rendering
		tri := []int{0, 1, 3 % len(ls)}
		if p == ir.Influx {
			tri = []int{6, 1, 7}
		}
		if p == ir.DatadogLogs {
			tri = []int{2, 4, 7}
		}
		for _, sh := range shapes(3, nv2, 2) {
			for _, o := range renderings(p, maxLabels(p, tri), thorough || p != ir.OTLPLogs) {
				send("small_C_3streams_entrylists_x_renderings", Spec{Space: "small", Proto: p.Name, Opt: o, Labels: tri, Shape: sh})
			}
		}
		// ---- count classes: crossing the 1000-point flush inside a series and at its end --------------
		cc := []int{0, 1, 2, 999, 1000, 1001, 1500}
		if thorough {
			cc = []int{0, 1, 2, 500, 998, 999, 1000, 1001, 1002, 1500, 1999, 2000, 2001, 3000}
		}
		pair := pairs[0]
		if p == ir.Influx {
			pair = []int{1, 8}
		}
		if p == ir.DatadogLogs {
			pair = []int{2, 4}
		}
		for _, n1 := range cc {
			for _, n2 := range cc {
				for _, pat := range []int{0, 1} {
					for _, o := range renderings(p, maxLabels(p, pair), false) {
						send("count_2streams", Spec{Space: "count", Proto: p.Name, Opt: o, Labels: pair, Counts: []int{n1, n2}, Pattern: pat})
					}
				}
			}
		}
		c3 := []int{0, 1, 500, 999, 1000, 1001}
		for _, n1 := range c3 {
			for _, n2 := range c3 {
				for _, n3 := range c3 {
					o := renderings(p, maxLabels(p, tri), false)[0]
					send("count_3streams", Spec{Space: "count", Proto: p.Name, Opt: o, Labels: tri, Counts: []int{n1, n2, n3}, Pattern: 1})
				}
			}
		}
		// ---- byte classes: 4 entries, line length in {0, 3, 350 KiB}: 1 MiB is crossed after three big lines --
		if strings.Contains(p.Kinds, "l") {
			lp := pairs[0]
			dists := [][]int{{2, 2}, {1, 3}, {3, 1}, {4}}
			if thorough {
				dists = append(dists, []int{1, 1, 2}, []int{2, 1, 1})
			}
			for _, dist := range dists {
				labels := lp
				if len(dist) == 1 {
					labels = lp[:1]
				}
				if len(dist) == 3 {
					labels = []int{lp[0], lp[1], lp[0]}
				}
				for code := 0; code < 81; code++ {
					c := code
					var lens [][]int
					for _, n := range dist {
						var l []int
						for j := 0; j < n; j++ {
							l = append(l, c%3)
							c /= 3
						}
						lens = append(lens, l)
					}
					rs := renderings(p, maxLabels(p, labels), false)
					if !thorough {
						rs = rs[:1]
						if p == ir.LokiJSON {
							rs = []ir.Opt{{Layout: 0}, {Layout: 1, EntriesFirst: true, Perm: 5, TsKey: 1, TsFmt: 1}}
						}
					}
					for _, o := range rs {
						send("bytes_4entries", Spec{Space: "bytes", Proto: p.Name, Opt: o, Labels: labels, Lens: lens})
					}
				}
			}
		}
	}
	return counts
}

type finding struct {
	idx   int64
	class string
	what  string
	spec  Spec
}

func main() {
	r := ev.Start("C03", "model_checking", 75*time.Second, 15*time.Minute)
	ir.InitWriterGlobals()
	r.Rule = "every body rendered from a value-level description []Stream{labels,[]Entry{ts,line,value,type}}: per protocol (Loki JSON both layouts, " +
		"Loki snappy-protobuf, remote-write, Influx line protocol, Datadog logs, Datadog series, OTLP logs) the full product, inside each listed sub-space, of " +
		"label sets x entry lists (0..2 entries per stream, every entry variant) x equivalent spellings (key orders, timestamp formats, third element, unknown keys, " +
		"precisions, attribute placement/typing), plus count classes {0,1,2,999,1000,1001,1500}^2 and {0,1,500,999,1000,1001}^3 entries per stream and byte classes " +
		"{0,3,350KiB}^4 line lengths; a case is distinct when its request bytes differ"
	r.Assumptions = []string{
		"expected fingerprint of a stream = the fingerprint the same parser assigns to that label set in a single-stream, single-entry body (differential; identity of fingerprints across protocols and label sets is C04)",
		"a 4xx answer to an enumerated body means 'shape not supported' and is listed, not judged; a 5xx answer to a well-formed body is a violation",
		"an entry that carries a line and a number (Loki JSON only) is stored with type 0, as model.SAMPLE_TYPE_UNDEF documents",
		"parsers are driven with a fingerprint cache that has seen nothing; TTL columns and series rows are only checked for rectangularity here",
	}
	var err error
	if specialLabelNames, specialContexts, err = ir.SpecialNames(ev.Repo()); err != nil {
		ev.Fatal("cannot collect the special label names from the decoder sources: %v", err)
	}
	lim, err := ir.SizeLimits(ev.Repo())
	if err != nil {
		ev.Fatal("cannot collect the size limits from the decoder sources: %v", err)
	}
	r.Extra["integer_constants_collected_from_source"] = lim
	seenLim := map[int]bool{}
	for _, l := range append(lim, ir.LibraryLimits...) {
		if l >= 512 && l <= 4<<20 && !seenLim[l] { // as byte offsets; counts such as the 1000-point counter are the count classes
			seenLim[l] = true
			sizeLimits = append(sizeLimits, l)
		}
	}
	sort.Ints(sizeLimits)
	r.Extra["byte_limits_swept"] = sizeLimits
	r.Extra["special_label_names_collected_from_source"] = specialLabelNames
	r.Extra["context_values_collected_from_source"] = specialContexts
	if r.Replay != "" {
		replay(r)
		return
	}

	// enumerate into one bucket per (protocol, sub-space) and interleave the buckets, so that a run cut short by its
	// deadline on a loaded machine loses the tail of every bucket instead of whole protocols (order is fixed)
	buckets := map[string][]Spec{}
	var order []string
	sub := enumerate(r.Thorough(), func(s Spec) {
		k := s.Proto + "/" + s.Space + fmt.Sprint(len(s.Labels))
		if _, ok := buckets[k]; !ok {
			order = append(order, k)
		}
		buckets[k] = append(buckets[k], s)
	})
	var specs []Spec
	for i := 0; ; i++ {
		more := false
		for _, k := range order {
			b := buckets[k]
			// big buckets advance proportionally faster so that all buckets end together
			per := 1 + len(b)/2000
			for j := i * per; j < (i+1)*per && j < len(b); j++ {
				specs = append(specs, b[j])
				more = true
			}
		}
		if !more {
			break
		}
	}
	buckets = nil
	if r.Seed != 0 && len(specs) > 0 { // VERIF_SEED only rotates the order
		k := r.Seed % len(specs)
		if k < 0 {
			k += len(specs)
		}
		specs = append(specs[k:], specs[:k]...)
	}

	// history cases run first, one after the other in this goroutine: nothing else may touch process-wide decoder state
	// between body A and body B
	var parallel []Spec
	var serial []Spec
	for _, s := range specs {
		if s.Prev != nil || s.PrevRaw != "" {
			serial = append(serial, s)
		} else {
			parallel = append(parallel, s)
		}
	}
	type sres struct {
		s Spec
		v verdict
	}
	var serialResults []sres
	serialStart := time.Now()
	for _, s := range serial {
		if r.Expired() {
			break
		}
		serialResults = append(serialResults, sres{s, judge(s)})
	}
	r.Extra["history_phase_seconds"] = time.Since(serialStart).Seconds()
	specs = parallel
	workers := runtime.NumCPU()
	if workers > 14 {
		workers = 14
	}
	var next, done, skipped int64
	var mu sync.Mutex
	findings := map[string][]finding{}
	classCount := map[string]int64{}
	rejected := map[string]int64{}
	distinct := map[uint64]struct{}{}
	perProto := map[string]int64{}
	var progressAt atomic.Int64
	progressAt.Store(time.Now().UnixNano())
	var current sync.Map
	go func() { // watchdog: a parser that never closes its channel must not hang the check silently
		for {
			time.Sleep(5 * time.Second)
			if time.Since(time.Unix(0, progressAt.Load())) > 120*time.Second {
				var stuck []string
				current.Range(func(k, v any) bool { b, _ := json.Marshal(v); stuck = append(stuck, string(b)); return true })
				ev.Fatal("no progress for 120 s; cases in flight: %s", strings.Join(stuck, " | "))
			}
		}
	}()
	var wg sync.WaitGroup
	expired := false
	for w := 0; w < workers; w++ {
		wg.Add(1)
		go func(w int) {
			defer wg.Done()
			localDistinct := map[uint64]struct{}{}
			for {
				i := atomic.AddInt64(&next, 1) - 1
				if i >= int64(len(specs)) {
					break
				}
				if i%512 == 0 && r.Expired() {
					mu.Lock()
					expired = true
					mu.Unlock()
				}
				mu.Lock()
				e := expired
				mu.Unlock()
				if e {
					break
				}
				s := specs[i]
				current.Store(w, s)
				v := judge(s)
				progressAt.Store(time.Now().UnixNano())
				if v.skipped {
					atomic.AddInt64(&skipped, 1)
					continue
				}
				atomic.AddInt64(&done, 1)
				localDistinct[v.bodyHash] = struct{}{}
				r.Outcome(v.outcome)
				mu.Lock()
				perProto[s.Proto]++
				if v.rejected != "" {
					rejected[v.rejected]++
				}
				if v.class != "" {
					classCount[v.class]++
					f := findings[v.class]
					f = append(f, finding{i, v.class, v.what, s})
					sort.Slice(f, func(a, b int) bool { return f[a].idx < f[b].idx })
					if len(f) > 2 {
						f = f[:2]
					}
					findings[v.class] = f
				}
				mu.Unlock()
			}
			current.Delete(w)
			mu.Lock()
			for k := range localDistinct {
				distinct[k] = struct{}{}
			}
			mu.Unlock()
		}(w)
	}
	wg.Wait()
	for i, sr := range serialResults { // fold the history cases in (they ran before the workers started)
		v := sr.v
		if v.skipped {
			skipped++
			continue
		}
		done++
		distinct[v.bodyHash^uint64(i+1)*0x9e3779b97f4a7c15] = struct{}{} // the same body after another history is another case
		r.Outcome(v.outcome)
		perProto[sr.s.Proto]++
		if v.rejected != "" {
			rejected[v.rejected]++
		}
		if v.class != "" {
			cl := v.class
			if !strings.HasPrefix(cl, "chunk") {
				cl = "after_earlier_body:" + cl // the same body is exact in a fresh process: state carried across requests
			}
			classCount[cl]++
			if len(findings[cl]) < 2 {
				findings[cl] = append(findings[cl], finding{int64(-len(serialResults) + i), cl, v.what + " — decoded after another body in the same process", sr.s})
			}
		}
	}
	r.Extra["history_cases_run_serially"] = len(serialResults)
	if len(serialResults) < len(serial) {
		r.Cap(fmt.Sprintf("history cases: stopped after %d of %d", len(serialResults), len(serial)))
	}

	r.AddEval(done)
	r.TracesValidated = done
	for i := 0; i < 8 && i < len(specs); i++ {
		r.Sample(specs[(i*len(specs))/8])
	}
	// distinct_nontrivial: distinct request bodies (hash of protocol + bytes)
	for k := range distinct {
		r.Distinct(fmt.Sprintf("%016x", k))
	}
	r.Extra["cases_enumerated"] = len(specs) + len(serial)
	r.Extra["cases_inexpressible_skipped"] = skipped
	r.Extra["cases_per_subspace"] = sub
	r.Extra["bodies_parsed_per_protocol"] = perProto
	r.Extra["rejected_4xx_shapes"] = rejected
	r.Extra["violation_class_counts"] = classCount
	r.Extra["reference_fingerprints"] = "per (protocol, label set) from a single-stream body through the same parser"
	r.Extra["d1_profile_probe"] = "retired: D1 (oversize profile chunk in the wrong response field) was confirmed with a probe of the real onProfile callback and is fixed in /repo (commit 9382052); the probe needed an export that named private fields of parserDoer, profiles are outside the C03 statement"
	if int64(len(specs)+len(serialResults)) != done+skipped {
		r.Cap(fmt.Sprintf("stopped after %d of %d cases", done+skipped, len(specs)))
	}
	var classes []string
	for c := range findings {
		classes = append(classes, c)
	}
	sort.Strings(classes)
	for _, c := range classes {
		for _, f := range findings[c] {
			r.Violate(f.class, fmt.Sprintf("%s (%d cases of this class)", f.what, classCount[c]), f.spec)
		}
	}
	r.Finish()
}

func replay(r *ev.Run) {
	b, err := os.ReadFile(r.Replay)
	if err != nil {
		ev.Fatal("replay: %v", err)
	}
	var doc struct {
		Replay Spec `json:"replay"`
	}
	if err := json.Unmarshal(b, &doc); err != nil || doc.Replay.Proto == "" {
		var s Spec
		if err2 := json.Unmarshal(b, &s); err2 != nil || s.Proto == "" {
			ev.Fatal("replay: cannot read a Spec from %s: %v", r.Replay, err)
		}
		doc.Replay = s
	}
	s := doc.Replay
	p, streams, err := Build(s)
	if err != nil {
		ev.Fatal("replay: %v", err)
	}
	if body, err := p.Render(streams, s.Opt); err == nil {
		shown := body
		if p.Snappy || p == ir.OTLPLogs || len(shown) > 600 {
			fmt.Printf("body: %d bytes (%s)\n", len(body), p.Name)
		} else {
			fmt.Printf("body: %s\n", shown)
		}
	}
	v := judge(s)
	r.AddEval(1)
	r.TracesValidated = 1
	switch {
	case v.skipped:
		fmt.Println("replay: inexpressible in this protocol")
	case v.class == "":
		fmt.Printf("replay: held (%s) %s\n", v.outcome, v.rejected)
	default:
		r.Violate(v.class, v.what, s)
	}
	r.Finish()
}
