package main

import (
	"fmt"

	"github.com/metrico/qryn/writer/model"
	"github.com/metrico/qryn/writer/utils/unmarshal"
)

// d1Probe: suspected defect D1 (DESIGN §3) concerns the profile parser, which is outside the C03 statement (logs
// and metrics); it is confirmed or refuted here against the real onProfile callback and recorded in the evidence as
// an observation only — it never decides the C03 verdict.
func d1Probe() map[string]any {
	res := map[string]any{}
	for _, n := range []int{1024, 1024*1024 + 16} {
		rs, pending := unmarshal.VerifOnProfileOversize(n)
		desc := []string{}
		for _, r := range rs {
			prof := "nil"
			if r.ProfileRequest != nil {
				prof = fmt.Sprintf("%T", r.ProfileRequest)
			}
			spans := "nil"
			if r.SpansRequest != nil {
				spans = fmt.Sprintf("%T", r.SpansRequest)
				if s, ok := r.SpansRequest.(*model.TempoSamples); ok && s == nil {
					spans += "(nil pointer)"
				}
			}
			desc = append(desc, fmt.Sprintf("response{ProfileRequest=%s SpansRequest=%s}", prof, spans))
		}
		res[fmt.Sprintf("profile_with_%d_bytes_of_sample_type_strings", n)] = map[string]any{
			"responses_emitted_by_onProfile": desc, "profiles_still_pending_after": pending}
	}
	return res
}
