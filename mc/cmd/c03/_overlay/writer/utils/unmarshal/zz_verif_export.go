//go:build verif

package unmarshal

import "github.com/metrico/qryn/writer/model"

// VerifOnProfileOversize calls the real onProfile callback of a profile parserDoer (set up exactly as
// doParseProfile does) with one profile whose sample-type strings add up to `bytes`, and reports what it put on
// the response channel and how many profiles are still pending afterwards.  Only used by the D1 probe of C03.
func VerifOnProfileOversize(bytes int) (responses []*model.ParserResponse, pending int) {
	p := &parserDoer{res: make(chan *model.ParserResponse, 4)}
	p.size = 0
	p.resetProfile()
	big := make([]byte, bytes)
	for i := range big {
		big[i] = 'x'
	}
	_ = p.onProfile(1, "process_cpu", "svc", []model.StrStr{{Str1: string(big), Str2: "count"}}, "cpu", "nanoseconds",
		nil, 10, "pprof", []byte("payload"), nil, nil, nil)
	close(p.res)
	for r := range p.res {
		responses = append(responses, r)
	}
	return responses, len(p.profile.TimestampNs)
}
