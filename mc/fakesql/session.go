package fakesql

import (
	"github.com/jmoiron/sqlx"
	clcfg "github.com/metrico/cloki-config/config"
	"github.com/metrico/qryn/reader/dbRegistry"
	"github.com/metrico/qryn/reader/model"
	"github.com/metrico/qryn/reader/utils/dsn"
)

// Session wraps the scripted database in the reader's own connection wrapper (reader/utils/dsn
// StableSqlxDBWrapper over sqlx over database/sql), i.e. exactly the stack dbRegistry.initDataDBSession builds,
// with clickhouse.OpenDB replaced by the scripted connector.  The wrapper re-opens the pool through GetDB after
// any query error, as in production.
type Session struct {
	*dsn.StableSqlxDBWrapper
	Script *DB
}

// NewSession builds the wrapper.  name is what GetName() returns (dbVersion caches version info per name).
func NewSession(name string, d *DB) *Session {
	get := func() *sqlx.DB {
		db := sqlx.NewDb(d.OpenDB(), "clickhouse")
		db.SetMaxOpenConns(0)
		db.SetMaxIdleConns(4)
		return db
	}
	return &Session{StableSqlxDBWrapper: &dsn.StableSqlxDBWrapper{DB: get(), GetDB: get, Name: name}, Script: d}
}

var _ model.ISqlxDB = (*Session)(nil)

// Registry returns the reader's static registry (reader/dbRegistry NewStaticDBRegistry) holding one node backed by
// the session.  cluster != "" selects the clustered ("_dist") table names.
func Registry(s model.ISqlxDB, dbName, cluster string) (model.IDBRegistry, *model.DataDatabasesMap) {
	node := &model.DataDatabasesMap{
		Config: &clcfg.ClokiBaseDataBase{Name: dbName, Node: "node1", ClusterName: cluster, Host: "fake", Port: 9000,
			User: "default"},
		DSN:     "n-clickhouse://default:@fake9000/" + dbName,
		Session: s,
	}
	return dbRegistry.NewStaticDBRegistry(map[string]*model.DataDatabasesMap{"node1": node}), node
}
