// Package chbackend backs a fakesql script with the ClickHouse-subset interpreter verif/mc/chsim: the statement
// text the reader sends is executed on in-memory tables and the result is handed to database/sql in the Go
// types clickhouse-go's std driver uses (uint64, int64, float64, string, map[string]string, []any for Tuple,
// [][]any for Array(Tuple), []string / []int64 / … for Array(T), time.Time for Date / DateTime).
package chbackend

import (
	"context"
	"database/sql/driver"
	"errors"
	"fmt"
	"sort"
	"strings"
	"sync"
	"time"

	"verif/mc/chsim"
	"verif/mc/fakesql"
)

// Backend executes statements on a chsim database.
type Backend struct {
	DB *chsim.DB
	// Tables is what SHOW TABLES answers.
	Tables []string

	mu          sync.Mutex
	Unsupported []string // statements chsim could not execute (outside its subset): never a verdict
	Statements  []string // every statement executed (when Record is set)
	Record      bool
}

// New wraps a chsim database.
func New(db *chsim.DB, tables ...string) *Backend { return &Backend{DB: db, Tables: tables} }

// Handler is the fakesql handler.
func (b *Backend) Handler() fakesql.Handler {
	return func(ctx context.Context, q string, _ []driver.NamedValue) (*fakesql.Result, error) {
		if b.Record {
			b.mu.Lock()
			b.Statements = append(b.Statements, q)
			b.mu.Unlock()
		}
		if strings.HasPrefix(strings.ToUpper(strings.TrimSpace(q)), "SHOW TABLES") {
			res := fakesql.NewResult("name")
			t := append([]string(nil), b.Tables...)
			sort.Strings(t)
			for _, n := range t {
				res.Add(n)
			}
			return res, nil
		}
		r, err := b.DB.Query(q)
		if err != nil {
			if errors.Is(err, chsim.ErrUnsupported) {
				b.mu.Lock()
				b.Unsupported = append(b.Unsupported, err.Error()+" <= "+q)
				b.mu.Unlock()
			}
			// syntax / evaluation errors are what ClickHouse would answer with an exception
			return nil, fmt.Errorf("clickhouse [chsim]: %w", err)
		}
		res := fakesql.NewResult(r.Cols...)
		for _, row := range r.Rows {
			vals := make([]driver.Value, len(row))
			for i, v := range row {
				var t *chsim.Type
				if i < len(r.Types) {
					t = r.Types[i]
				}
				vals[i] = ToGo(v, t)
			}
			res.Rows = append(res.Rows, vals)
		}
		return res, nil
	}
}

// ToGo converts a chsim value to the Go value clickhouse-go would deliver for a column of type t (t may be nil).
func ToGo(v chsim.Value, t *chsim.Type) any {
	switch x := v.(type) {
	case nil:
		return nil
	case int64, uint64, float64, string:
		if t != nil {
			switch t.Name {
			case "Int8":
				if i, ok := x.(int64); ok {
					return int8(i)
				}
			case "UInt8":
				if u, ok := x.(uint64); ok {
					return uint8(u)
				}
			}
		}
		return x
	case chsim.Date:
		return time.Unix(int64(x)*86400, 0).UTC()
	case chsim.DateTime:
		return time.Unix(int64(x), 0).UTC()
	case chsim.Tuple:
		out := make([]any, len(x))
		for i, e := range x {
			out[i] = ToGo(e, argType(t, i))
		}
		return out
	case *chsim.Map:
		out := make(map[string]string, len(x.Keys))
		for i := range x.Keys {
			out[fmt.Sprint(x.Keys[i])] = fmt.Sprint(x.Vals[i])
		}
		return out
	case chsim.Array:
		et := argType(t, 0)
		kind := ""
		if et != nil {
			kind = et.Name
		} else if len(x) > 0 {
			switch x[0].(type) {
			case chsim.Tuple:
				kind = "Tuple"
			case string:
				kind = "String"
			case int64:
				kind = "Int64"
			case uint64:
				kind = "UInt64"
			case float64:
				kind = "Float64"
			}
		}
		switch kind {
		case "Tuple":
			out := make([][]any, len(x))
			for i, e := range x {
				out[i], _ = ToGo(e, et).([]any)
			}
			return out
		case "String", "FixedString":
			out := make([]string, len(x))
			for i, e := range x {
				out[i], _ = e.(string)
			}
			return out
		case "Int64":
			out := make([]int64, len(x))
			for i, e := range x {
				out[i], _ = e.(int64)
			}
			return out
		case "UInt64":
			out := make([]uint64, len(x))
			for i, e := range x {
				out[i], _ = e.(uint64)
			}
			return out
		case "Float64":
			out := make([]float64, len(x))
			for i, e := range x {
				out[i], _ = e.(float64)
			}
			return out
		}
		out := make([]any, len(x))
		for i, e := range x {
			out[i] = ToGo(e, et)
		}
		return out
	}
	return v
}

func argType(t *chsim.Type, i int) *chsim.Type {
	if t == nil || i >= len(t.Args) {
		return nil
	}
	return t.Args[i]
}
