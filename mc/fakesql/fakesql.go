// Package fakesql is a scripted database/sql/driver standing in for clickhouse-go behind the reader's
// model.ISqlxDB seam (DESIGN.md §1 E3).
//
// A Handler maps each incoming query text to a *Result (columns, rows, injected faults).  Row values are handed
// to database/sql exactly as clickhouse-go's std driver does: plain Go values of the column's natural type
// (uint64, int64, float64, string, map[string]string for Map(String,String), []any for Tuple, [][]any for
// Array(Tuple), []string / []int64 for Array(T), time.Time for Date*), which database/sql then assigns to the
// Scan destinations by reflection.  Nothing is validated or converted here.
//
// Faults a Result can carry:
//   - OpenErr: QueryContext fails (connection refused / syntax error / server exception before the first block);
//   - ErrAtRow=k (k>=0) with RowErr: driver Rows.Next fails when asked for row k, i.e. after k rows were
//     delivered (server exception or broken connection in the middle of the stream; rows.Next()==false, rows.Err()!=nil);
//   - EndErr: Next fails instead of returning io.EOF after the last row (rows.Err at end);
//   - BlockAtRow=k (k>=0): Next blocks when asked for row k until the query's context is cancelled, then returns
//     ctx.Err() (a server that stopped answering; clickhouse-go unblocks the same way: the context watcher closes
//     the connection).  BlockOpen blocks inside QueryContext instead.
//   - a nil (SQL NULL) or wrong-typed value inside a row makes rows.Scan itself fail at that row.
//
// The package is deliberately independent of what produces the rows: a Handler may be a hand-written script
// (C12), a small purpose-built evaluator (C17) or a ClickHouse-subset interpreter (chsim) behind the Backend
// interface.
package fakesql

import (
	"context"
	"database/sql"
	"database/sql/driver"
	"errors"
	"fmt"
	"io"
	"sync"
	"sync/atomic"
)

// Result is the scripted answer to one query.
type Result struct {
	Columns []string
	Rows    [][]driver.Value

	OpenErr    error
	ErrAtRow   int // -1 = none
	RowErr     error
	EndErr     error
	BlockAtRow int // -1 = none
	BlockOpen  bool
}

// NewResult returns an empty, fault-free result with the given columns.
func NewResult(cols ...string) *Result {
	return &Result{Columns: cols, ErrAtRow: -1, BlockAtRow: -1}
}

// Add appends one row.
func (r *Result) Add(vals ...driver.Value) *Result {
	r.Rows = append(r.Rows, vals)
	return r
}

// Handler answers one query.  Returning (nil, err) is the same as Result{OpenErr: err}.
type Handler func(ctx context.Context, query string, args []driver.NamedValue) (*Result, error)

// Backend is the "query -> rows" seam for interpreters such as chsim: columns + rows as Go values.
type Backend interface {
	Query(ctx context.Context, query string) (columns []string, rows [][]any, err error)
}

// FromBackend adapts a Backend to a Handler.
func FromBackend(b Backend) Handler {
	return func(ctx context.Context, query string, _ []driver.NamedValue) (*Result, error) {
		cols, rows, err := b.Query(ctx, query)
		if err != nil {
			return nil, err
		}
		res := NewResult(cols...)
		for _, r := range rows {
			vals := make([]driver.Value, len(r))
			for i, v := range r {
				vals[i] = v
			}
			res.Rows = append(res.Rows, vals)
		}
		return res, nil
	}
}

// Event is one entry of the driver's log.
type Event struct {
	Kind  string // "query" | "exec" | "rows_close" | "blocked" | "unblocked" | "conn_open" | "conn_close" | "ping"
	Query string
	Rows  int // rows delivered so far (rows_close)
}

// DB is one scripted database: a handler plus a log of what the code under test did.
type DB struct {
	mu      sync.Mutex
	handler Handler
	log     []Event
	keepLog bool

	openRows  int64 // driver.Rows handed out and not yet closed
	openConns int64
	blocked   int64 // Next/Query calls currently parked on a context
	// BlockedCh receives one token each time a query parks on its context (never blocks the driver).
	BlockedCh chan struct{}
	// FailConnect makes driver.Connector.Connect fail (no connection can be established at all).
	FailConnect atomic.Value // error
}

// New creates a scripted database.
func New(h Handler) *DB {
	return &DB{handler: h, keepLog: true, BlockedCh: make(chan struct{}, 1024)}
}

// SetHandler swaps the script (between requests).
func (d *DB) SetHandler(h Handler) {
	d.mu.Lock()
	d.handler = h
	d.mu.Unlock()
}

// ResetLog clears the event log.
func (d *DB) ResetLog() {
	d.mu.Lock()
	d.log = d.log[:0]
	d.mu.Unlock()
	for {
		select {
		case <-d.BlockedCh:
		default:
			return
		}
	}
}

// Log returns a copy of the event log.
func (d *DB) Log() []Event {
	d.mu.Lock()
	defer d.mu.Unlock()
	return append([]Event(nil), d.log...)
}

// Queries returns the query texts seen since the last ResetLog.
func (d *DB) Queries() []string {
	d.mu.Lock()
	defer d.mu.Unlock()
	var out []string
	for _, e := range d.log {
		if e.Kind == "query" {
			out = append(out, e.Query)
		}
	}
	return out
}

// OpenRows is the number of driver.Rows not yet closed (a Rows that the code under test forgot to close keeps
// its connection checked out of the pool).
func (d *DB) OpenRows() int64 { return atomic.LoadInt64(&d.openRows) }

// Blocked is the number of driver calls currently parked on a context.
func (d *DB) Blocked() int64 { return atomic.LoadInt64(&d.blocked) }

func (d *DB) event(e Event) {
	d.mu.Lock()
	if d.keepLog && len(d.log) < 4096 {
		d.log = append(d.log, e)
	}
	d.mu.Unlock()
}

// Connector returns a driver.Connector for sql.OpenDB.
func (d *DB) Connector() driver.Connector { return &connector{db: d} }

// OpenDB returns a *sql.DB over the script.
func (d *DB) OpenDB() *sql.DB { return sql.OpenDB(d.Connector()) }

// ---- registration under a private driver name (sql.Open("verif-fakesql", <key>)) ----

const DriverName = "verif-fakesql"

var (
	regMu sync.Mutex
	reg   = map[string]*DB{}
)

type drv struct{}

func (drv) Open(name string) (driver.Conn, error) {
	regMu.Lock()
	d := reg[name]
	regMu.Unlock()
	if d == nil {
		return nil, fmt.Errorf("fakesql: no database registered as %q", name)
	}
	return d.Connector().Connect(context.Background())
}

func init() { sql.Register(DriverName, drv{}) }

// Register makes the database reachable as sql.Open(DriverName, key).
func Register(key string, d *DB) {
	regMu.Lock()
	reg[key] = d
	regMu.Unlock()
}

// ---- driver ----

type connector struct{ db *DB }

func (c *connector) Connect(ctx context.Context) (driver.Conn, error) {
	if e, _ := c.db.FailConnect.Load().(error); e != nil {
		return nil, e
	}
	atomic.AddInt64(&c.db.openConns, 1)
	c.db.event(Event{Kind: "conn_open"})
	return &conn{db: c.db}, nil
}
func (c *connector) Driver() driver.Driver { return drv{} }

type conn struct {
	db     *DB
	closed bool
}

var (
	_ driver.QueryerContext = (*conn)(nil)
	_ driver.ExecerContext  = (*conn)(nil)
	_ driver.Pinger         = (*conn)(nil)
	_ driver.ConnBeginTx    = (*conn)(nil)
)

func (c *conn) Prepare(query string) (driver.Stmt, error) {
	return nil, errors.New("fakesql: Prepare not supported (clickhouse-go std is used through QueryContext only)")
}
func (c *conn) Close() error {
	if !c.closed {
		c.closed = true
		atomic.AddInt64(&c.db.openConns, -1)
		c.db.event(Event{Kind: "conn_close"})
	}
	return nil
}
func (c *conn) Begin() (driver.Tx, error) { return tx{}, nil }
func (c *conn) BeginTx(ctx context.Context, opts driver.TxOptions) (driver.Tx, error) {
	return tx{}, nil
}
func (c *conn) Ping(ctx context.Context) error {
	c.db.event(Event{Kind: "ping"})
	return nil
}

type tx struct{}

func (tx) Commit() error   { return nil }
func (tx) Rollback() error { return nil }

func (c *conn) park(ctx context.Context) error {
	atomic.AddInt64(&c.db.blocked, 1)
	c.db.event(Event{Kind: "blocked"})
	select {
	case c.db.BlockedCh <- struct{}{}:
	default:
	}
	<-ctx.Done()
	atomic.AddInt64(&c.db.blocked, -1)
	c.db.event(Event{Kind: "unblocked"})
	return ctx.Err()
}

func (c *conn) QueryContext(ctx context.Context, query string, args []driver.NamedValue) (driver.Rows, error) {
	c.db.event(Event{Kind: "query", Query: query})
	if err := ctx.Err(); err != nil {
		return nil, err
	}
	c.db.mu.Lock()
	h := c.db.handler
	c.db.mu.Unlock()
	if h == nil {
		return nil, errors.New("fakesql: no handler")
	}
	res, err := h(ctx, query, args)
	if err != nil {
		return nil, err
	}
	if res == nil {
		return nil, errors.New("fakesql: handler returned no result")
	}
	if res.BlockOpen {
		return nil, c.park(ctx)
	}
	if res.OpenErr != nil {
		return nil, res.OpenErr
	}
	atomic.AddInt64(&c.db.openRows, 1)
	return &rows{c: c, ctx: ctx, res: res}, nil
}

func (c *conn) ExecContext(ctx context.Context, query string, args []driver.NamedValue) (driver.Result, error) {
	c.db.event(Event{Kind: "exec", Query: query})
	return driver.RowsAffected(0), nil
}

type rows struct {
	c      *conn
	ctx    context.Context
	res    *Result
	i      int
	closed bool
}

func (r *rows) Columns() []string { return r.res.Columns }
func (r *rows) Close() error {
	if !r.closed {
		r.closed = true
		atomic.AddInt64(&r.c.db.openRows, -1)
		r.c.db.event(Event{Kind: "rows_close", Rows: r.i})
	}
	return nil
}

func (r *rows) Next(dest []driver.Value) error {
	if r.res.BlockAtRow >= 0 && r.i == r.res.BlockAtRow {
		return r.c.park(r.ctx)
	}
	if r.res.ErrAtRow >= 0 && r.i == r.res.ErrAtRow {
		if r.res.RowErr != nil {
			return r.res.RowErr
		}
		return errors.New("fakesql: injected error")
	}
	if r.i >= len(r.res.Rows) {
		if r.res.EndErr != nil {
			return r.res.EndErr
		}
		return io.EOF
	}
	row := r.res.Rows[r.i]
	if len(row) != len(dest) {
		return fmt.Errorf("fakesql: row %d has %d values, result has %d columns", r.i, len(row), len(dest))
	}
	copy(dest, row)
	r.i++
	return nil
}
