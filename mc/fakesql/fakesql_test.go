package fakesql

import (
	"context"
	"database/sql/driver"
	"errors"
	"testing"
	"time"
)

func script(res *Result) Handler {
	return func(ctx context.Context, q string, _ []driver.NamedValue) (*Result, error) { return res, nil }
}

func TestTypesAndFaults(t *testing.T) {
	boom := errors.New("boom")
	res := NewResult("fp", "labels", "pairs", "tuple", "arr")
	for i := 0; i < 3; i++ {
		res.Add(uint64(i), map[string]string{"a": "b"}, [][]any{{"k", "v"}}, []any{"x", int64(1)}, []string{"s"})
	}
	d := New(script(res))
	s := NewSession("t", d)

	// values reach Scan destinations of the types the reader uses, by reflection
	rows, err := s.QueryCtx(context.Background(), "SELECT 1")
	if err != nil {
		t.Fatal(err)
	}
	n := 0
	for rows.Next() {
		var fp uint64
		var l map[string]string
		var p [][]any
		var tu []any
		var a []string
		if err := rows.Scan(&fp, &l, &p, &tu, &a); err != nil {
			t.Fatal(err)
		}
		if l["a"] != "b" || p[0][1].(string) != "v" || tu[1].(int64) != 1 || a[0] != "s" || fp != uint64(n) {
			t.Fatalf("row %d: %v %v %v %v %v", n, fp, l, p, tu, a)
		}
		n++
	}
	if n != 3 || rows.Err() != nil || d.OpenRows() != 0 {
		t.Fatalf("n=%d err=%v open=%d", n, rows.Err(), d.OpenRows())
	}

	// error at row 1: one row delivered, then rows.Err
	res.ErrAtRow, res.RowErr = 1, boom
	rows, _ = s.QueryCtx(context.Background(), "SELECT 1")
	n = 0
	for rows.Next() {
		n++
	}
	if n != 1 || !errors.Is(rows.Err(), boom) {
		t.Fatalf("n=%d err=%v", n, rows.Err())
	}
	res.ErrAtRow = -1

	// rows.Err at end
	res.EndErr = boom
	rows, _ = s.QueryCtx(context.Background(), "SELECT 1")
	n = 0
	for rows.Next() {
		n++
	}
	if n != 3 || !errors.Is(rows.Err(), boom) {
		t.Fatalf("n=%d err=%v", n, rows.Err())
	}
	res.EndErr = nil

	// NULL makes Scan fail
	res.Rows[1] = []driver.Value{nil, map[string]string{}, [][]any{}, []any{}, []string{}}
	rows, _ = s.QueryCtx(context.Background(), "SELECT 1")
	rows.Next()
	rows.Next()
	var fp uint64
	var l map[string]string
	var p [][]any
	var tu []any
	var a []string
	if err := rows.Scan(&fp, &l, &p, &tu, &a); err == nil {
		t.Fatal("scan of NULL into uint64 must fail")
	}
	rows.Close()

	// open error
	res.OpenErr = boom
	if _, err := s.QueryCtx(context.Background(), "SELECT 1"); !errors.Is(err, boom) {
		t.Fatalf("open err: %v", err)
	}
	res.OpenErr = nil

	// block at row 2 until the context is cancelled
	res.BlockAtRow = 2
	ctx, cancel := context.WithCancel(context.Background())
	rows, err = s.QueryCtx(ctx, "SELECT 1")
	if err != nil {
		t.Fatal(err)
	}
	done := make(chan int)
	go func() {
		n := 0
		for rows.Next() {
			n++
		}
		done <- n
	}()
	select {
	case <-d.BlockedCh:
	case <-time.After(5 * time.Second):
		t.Fatal("driver never parked")
	}
	cancel()
	select {
	case n := <-done:
		if n != 2 || rows.Err() == nil {
			t.Fatalf("n=%d err=%v", n, rows.Err())
		}
	case <-time.After(5 * time.Second):
		t.Fatal("Next did not return after cancellation")
	}
}
