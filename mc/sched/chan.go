package sched

import (
	"cmp"
	"fmt"
	"iter"
	"os"
	"reflect"
	"slices"
	"sort"
)

// MapKeys returns the keys of m in a canonical order.  The rewriter turns `for k, v := range m` over a map in an
// instrumented file into an iteration over MapKeys(m): Go leaves the order unspecified, so a fixed order is a legal
// behaviour, and it removes the one source of nondeterminism a scheduler cannot own.
func MapKeys[M ~map[K]V, K comparable, V any](m M) []K {
	keys := make([]K, 0, len(m))
	for k := range m {
		keys = append(keys, k)
	}
	switch ks := any(keys).(type) {
	case []string:
		slices.Sort(ks)
	case []int:
		slices.Sort(ks)
	case []int64:
		slices.Sort(ks)
	case []uint64:
		slices.Sort(ks)
	case []uint32:
		slices.Sort(ks)
	case []float64:
		slices.SortFunc(ks, func(a, b float64) int { return cmp.Compare(a, b) })
	default:
		sort.Slice(keys, func(i, j int) bool { return fmt.Sprintf("%#v", keys[i]) < fmt.Sprintf("%#v", keys[j]) })
	}
	return keys
}

// Channels are modelled inside the scheduler: the real channel object is only an identity (and is kept in sync
// for close, so that uninstrumented code selecting on a Done() channel still sees it).  All sends/receives of
// instrumented code go through Send/Recv/Recv2/Close/RangeChan/Sel.

// fatalHarness reports a broken invariant of the channel model.  It must not be a panic: code under test may recover
// panics (the read path does, on purpose) and would turn a failure of the machinery into an observation.
func fatalHarness(msg string) {
	fmt.Fprintf(os.Stderr, "HARNESS-ERROR: %s\n", msg)
	os.Exit(2)
}

var debugChan = os.Getenv("SCHED_DEBUG_CHAN") != ""

type chanState struct {
	id     int
	cap    int
	buf    []any
	closed bool
	real   reflect.Value
}

type selCase struct {
	ch   *chanState // nil channel => never ready
	send bool
	val  any
}

// selOp is the pending channel operation of a thread.
type selOp struct {
	cases      []selCase
	hasDefault bool
	// set when a partner completed the operation by rendezvous
	completed bool
	fired     int
	rval      any
	rok       bool
}

func chanKey(ch any) (uintptr, reflect.Value) {
	v := reflect.ValueOf(ch)
	if v.Kind() != reflect.Chan {
		panic(HarnessError{fmt.Sprintf("sched: not a channel: %T", ch)})
	}
	if v.IsNil() {
		return 0, v
	}
	return v.Pointer(), v
}

// state returns the model of ch, registering it lazily: a channel first seen here is adopted with its real
// capacity, its real buffered contents are moved into the model and a real closed state is detected.
func (e *Exec) state(ch any) *chanState {
	k, v := chanKey(ch)
	if k == 0 {
		return nil
	}
	if s, ok := e.chans[k]; ok {
		return s
	}
	e.chanSeq++
	s := &chanState{id: e.chanSeq, cap: v.Cap(), real: v}
	// adopt real contents (only possible on channels that can receive)
	if v.Type().ChanDir()&reflect.RecvDir != 0 {
		for {
			x, ok := v.TryRecv()
			if !ok {
				if x.IsValid() { // closed: TryRecv returns zero value, ok=false on closed channel
					s.closed = true
				}
				break
			}
			s.buf = append(s.buf, x.Interface())
		}
	}
	e.chans[k] = s
	return s
}

// MakeChan creates a channel known to the model.
func MakeChan[T any](n int) chan T {
	ch := make(chan T, n)
	if Active() {
		E.state(ch)
	}
	return ch
}

func (e *Exec) caseReady(t *Thread, c selCase) bool {
	s := c.ch
	if s == nil {
		return false
	}
	if c.send {
		if s.closed || len(s.buf) < s.cap {
			return true
		}
		// a full buffer blocks the sender even when a receiver has a pending operation: that receiver will take the
		// oldest buffered value first.  Only an unbuffered channel hands the value over to a waiting receiver.
		return s.cap == 0 && e.partner(t, s, false) != nil
	}
	if len(s.buf) > 0 || s.closed {
		return true
	}
	return e.partner(t, s, true) != nil
}

// partner finds another thread parked on the complementary operation of channel s (lowest id first).
func (e *Exec) partner(t *Thread, s *chanState, wantSender bool) *Thread {
	for _, u := range e.threads {
		if u == t || u.done || u.sel == nil || u.sel.completed {
			continue
		}
		for _, c := range u.sel.cases {
			if c.ch == s && c.send == wantSender {
				return u
			}
		}
	}
	return nil
}

// doSel parks until one case can proceed, then performs it.  Returns the fired case index (-1 = default).
func (e *Exec) doSel(op *selOp) (int, any, bool) {
	t := e.cur
	t.sel = op
	point(OpChan, func() bool {
		if op.completed || op.hasDefault {
			return true
		}
		for _, c := range op.cases {
			if e.caseReady(t, c) {
				return true
			}
		}
		return false
	})
	t.sel = nil
	if e.aborting {
		return -1, nil, false
	}
	if op.completed {
		return op.fired, op.rval, op.rok
	}
	var ready []int
	for i, c := range op.cases {
		if e.caseReady(t, c) {
			ready = append(ready, i)
		}
	}
	if len(ready) == 0 {
		if op.hasDefault {
			return -1, nil, false
		}
		fatalHarness("sched: select scheduled with no ready case")
	}
	pick := ready[0]
	if len(ready) > 1 {
		// Go picks uniformly among ready cases: a scheduling choice, charged to the preemption budget
		pick = ready[Choose("select-case", len(ready), false)]
	}
	c := op.cases[pick]
	s := c.ch
	if debugChan {
		fmt.Fprintf(os.Stderr, "  [chan] thread %d %s ch%d cap=%d buf=%d closed=%v send=%v\n", t.ID, t.Name, s.id, s.cap, len(s.buf), s.closed, c.send)
	}
	if c.send {
		if s.closed {
			panic("send on closed channel")
		}
		if u := e.partner(t, s, false); u != nil && len(s.buf) == 0 {
			// rendezvous (also used for buffered channels with a parked receiver and empty buffer)
			for i, uc := range u.sel.cases {
				if uc.ch == s && !uc.send {
					u.sel.completed, u.sel.fired, u.sel.rval, u.sel.rok = true, i, c.val, true
					break
				}
			}
			return pick, nil, false
		}
		if len(s.buf) < s.cap {
			s.buf = append(s.buf, c.val)
			return pick, nil, false
		}
		fatalHarness("sched: send scheduled but cannot proceed")
	}
	// receive
	if len(s.buf) > 0 {
		v := s.buf[0]
		s.buf = s.buf[1:]
		// a sender parked on the full buffer can now move its value in
		if u := e.partner(t, s, true); u != nil {
			for i, uc := range u.sel.cases {
				if uc.ch == s && uc.send {
					s.buf = append(s.buf, uc.val)
					u.sel.completed, u.sel.fired = true, i
					break
				}
			}
		}
		return pick, v, true
	}
	if u := e.partner(t, s, true); u != nil {
		for i, uc := range u.sel.cases {
			if uc.ch == s && uc.send {
				u.sel.completed, u.sel.fired = true, i
				return pick, uc.val, true
			}
		}
	}
	if s.closed {
		return pick, nil, false
	}
	fatalHarness("sched: receive scheduled but cannot proceed")
	return -1, nil, false
}

// Send is `ch <- v`.
func Send[T any](ch chan<- T, v T) {
	if E == nil {
		ch <- v
		return
	}
	if E.aborting {
		return
	}
	E.doSel(&selOp{cases: []selCase{{ch: E.state(ch), send: true, val: v}}})
}

func conv[T any](v any, ok bool) T {
	var zero T
	if !ok || v == nil {
		return zero
	}
	return v.(T)
}

// Recv is `<-ch`.
func Recv[T any](ch <-chan T) T {
	if E == nil {
		return <-ch
	}
	if E.aborting {
		var z T
		return z
	}
	_, v, ok := E.doSel(&selOp{cases: []selCase{{ch: E.state(ch)}}})
	return conv[T](v, ok)
}

// Recv2 is `v, ok := <-ch`.
func Recv2[T any](ch <-chan T) (T, bool) {
	if E == nil {
		v, ok := <-ch
		return v, ok
	}
	if E.aborting {
		var z T
		return z, false
	}
	_, v, ok := E.doSel(&selOp{cases: []selCase{{ch: E.state(ch)}}})
	return conv[T](v, ok), ok
}

// Close is `close(ch)`.
func Close[T any](ch chan<- T) {
	if E == nil {
		close(ch)
		return
	}
	if E.aborting {
		return
	}
	point(OpChan, nil)
	CloseNoPoint(ch)
}

// CloseNoPoint closes ch in the model (and for real) without a scheduling point; for shims that already yielded.
func CloseNoPoint(ch any) {
	s := E.state(ch)
	if s == nil {
		panic("close of nil channel")
	}
	if s.closed {
		panic("close of closed channel")
	}
	s.closed = true
	// keep the REAL channel's closed state in sync (code outside the scheduler, and the harness after the execution,
	// look at it).  Close through the value of THIS call: the model may have been registered through a receive-only
	// view of the channel (a Recv seen first), and reflect refuses to close through such a view.
	_, v := chanKey(ch)
	func() {
		defer func() {
			if r := recover(); r != nil {
				func() {
					defer func() { recover() }()
					s.real.Close()
				}()
			}
		}()
		v.Close()
	}()
}

// PushNoPoint appends v to the model buffer of ch if there is room (ticker semantics); reports success.
func PushNoPoint(ch any, v any) bool {
	s := E.state(ch)
	if s == nil || s.closed || len(s.buf) >= s.cap {
		return false
	}
	s.buf = append(s.buf, v)
	return true
}

// RangeChan is `for v := range ch`.
func RangeChan[T any](ch <-chan T) iter.Seq[T] {
	return func(yield func(T) bool) {
		for {
			v, ok := Recv2(ch)
			if !ok {
				return
			}
			if !yield(v) {
				return
			}
		}
	}
}

// Sel is the runtime form of a rewritten select statement.
type Sel struct {
	op   selOp
	real []reflect.SelectCase
	rv   any
	rok  bool
}

func NewSel(hasDefault bool) *Sel { return &Sel{op: selOp{hasDefault: hasDefault}} }

func SelRecv[T any](s *Sel, ch <-chan T) {
	if E == nil {
		s.real = append(s.real, reflect.SelectCase{Dir: reflect.SelectRecv, Chan: reflect.ValueOf(ch)})
		return
	}
	if E.aborting {
		return
	}
	s.op.cases = append(s.op.cases, selCase{ch: E.state(ch)})
}

func SelSend[T any](s *Sel, ch chan<- T, v T) {
	if E == nil {
		s.real = append(s.real, reflect.SelectCase{Dir: reflect.SelectSend, Chan: reflect.ValueOf(ch), Send: reflect.ValueOf(v)})
		return
	}
	if E.aborting {
		return
	}
	s.op.cases = append(s.op.cases, selCase{ch: E.state(ch), send: true, val: v})
}

// Wait performs the select; returns the index of the fired case in registration order, -1 for default.
func (s *Sel) Wait() int {
	if E == nil {
		cases := s.real
		if s.op.hasDefault {
			cases = append(cases, reflect.SelectCase{Dir: reflect.SelectDefault})
		}
		i, v, ok := reflect.Select(cases)
		if s.op.hasDefault && i == len(cases)-1 {
			return -1
		}
		if v.IsValid() {
			s.rv = v.Interface()
		}
		s.rok = ok
		return i
	}
	if E.aborting {
		// teardown: behave like a select that never fires; unwind the goroutine
		if s.op.hasDefault {
			return -1
		}
		return -2
	}
	i, v, ok := E.doSel(&s.op)
	s.rv, s.rok = v, ok
	return i
}

// SelVal returns the value received by the fired case (ch only carries the type).
func SelVal[T any](s *Sel, ch <-chan T) T { return conv[T](s.rv, s.rok) }

// SelVal2 returns value and ok of the fired receive case.
func SelVal2[T any](s *Sel, ch <-chan T) (T, bool) { return conv[T](s.rv, s.rok), s.rok }
