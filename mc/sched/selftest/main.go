// selftest: tiny scenarios with known answers, to show the explorer finds a lost update (needs 1 preemption),
// a deadlock (lock-order inversion), and finds nothing in the correct variants.
package main

import (
	"fmt"
	"os"
	"time"

	"verif/mc/sched"
	sync "verif/mc/sched/vsync"
)

type counter struct {
	name   string
	locked bool
}

func (c *counter) Name() string { return c.name }
func (c *counter) Run() any {
	var mu sync.Mutex
	x := 0
	var wg sync.WaitGroup
	for i := 0; i < 2; i++ {
		wg.Add(1)
		sched.Go(func() {
			defer wg.Done()
			if c.locked {
				mu.Lock()
			}
			sched.Yield()
			v := x
			sched.Yield()
			x = v + 1
			if c.locked {
				mu.Unlock()
			}
		})
	}
	wg.Wait()
	return x
}
func (c *counter) Check(obs any, res *sched.Result) (string, []sched.Finding) {
	if res.Failure != "" {
		return res.Failure, []sched.Finding{{Class: res.Failure, What: fmt.Sprint(res.Unfinished)}}
	}
	x := obs.(int)
	if x != 2 {
		return fmt.Sprint("x=", x), []sched.Finding{{Class: "lost_update", What: fmt.Sprint("x=", x)}}
	}
	return "x=2", nil
}

type inversion struct{}

func (inversion) Name() string { return "inversion" }
func (inversion) Run() any {
	var a, b sync.Mutex
	var wg sync.WaitGroup
	wg.Add(2)
	sched.Go(func() { defer wg.Done(); a.Lock(); b.Lock(); b.Unlock(); a.Unlock() })
	sched.Go(func() { defer wg.Done(); b.Lock(); a.Lock(); a.Unlock(); b.Unlock() })
	wg.Wait()
	return nil
}
func (inversion) Check(obs any, res *sched.Result) (string, []sched.Finding) {
	if res.Failure != "" {
		return res.Failure, []sched.Finding{{Class: res.Failure, What: fmt.Sprint(res.Unfinished)}}
	}
	return "ok", nil
}

type pipe struct{}

func (pipe) Name() string { return "pipe" }
func (pipe) Run() any {
	ch := sched.MakeChan[int](0)
	out := sched.MakeChan[int](1)
	sched.Go(func() {
		for i := 0; i < 3; i++ {
			sched.Send(ch, i)
		}
		sched.Close(ch)
	})
	sched.Go(func() {
		s := 0
		for v := range sched.RangeChan(ch) {
			s += v
		}
		sched.Send(out, s)
	})
	return sched.Recv(out)
}
func (pipe) Check(obs any, res *sched.Result) (string, []sched.Finding) {
	if res.Failure != "" || obs.(int) != 3 {
		return "bad", []sched.Finding{{Class: "pipe_bad", What: fmt.Sprint(res.Failure, obs)}}
	}
	return "sum=3", nil
}

// bufpipe: a three-stage pipeline over buffered channels (capacity 2), five values, the last stage started late:
// on every schedule the sink must see exactly 0..4 in order (FIFO, nothing lost when a full buffer meets a pending
// receiver, buffered values still delivered after close).
type bufpipe struct{}

func (bufpipe) Name() string { return "bufpipe" }
func (bufpipe) Run() any {
	a := sched.MakeChan[int](2)
	b := sched.MakeChan[int](2)
	out := sched.MakeChan[string](0)
	sched.Go(func() {
		for i := 0; i < 5; i++ {
			sched.Send(a, i)
		}
		sched.Close(a)
	})
	sched.Go(func() {
		for v := range sched.RangeChan(a) {
			sched.Send(b, v)
		}
		sched.Close(b)
	})
	sched.Go(func() {
		got := ""
		for v := range sched.RangeChan(b) {
			got += fmt.Sprint(v)
		}
		sched.Send(out, got)
	})
	return sched.Recv(out)
}
func (bufpipe) Check(obs any, res *sched.Result) (string, []sched.Finding) {
	if res.Failure != "" || obs.(string) != "01234" {
		return "bad", []sched.Finding{{Class: "bufpipe_bad", What: fmt.Sprint(res.Failure, obs)}}
	}
	return "01234", nil
}

// closesync: a channel first seen by the model through a receive-only view and closed later must also be closed for
// real when the execution is over (harnesses probe real channels after the run).
type closesync struct{}

var closesyncCh chan int

func (closesync) Name() string { return "closesync" }
func (closesync) Run() any {
	ch := make(chan int)
	closesyncCh = ch
	done := sched.MakeChan[int](0)
	sched.Go(func() {
		var ro <-chan int = ch
		sched.Recv(ro) // registers the channel through a receive-only view
		sched.Send(done, 1)
	})
	sched.Go(func() {
		var so chan<- int = ch
		sched.Close(so)
	})
	return sched.Recv(done)
}
func (closesync) Check(obs any, res *sched.Result) (string, []sched.Finding) {
	select {
	case _, ok := <-closesyncCh:
		if !ok {
			return "closed", nil
		}
	default:
	}
	return "bad", []sched.Finding{{Class: "closesync_real_channel_left_open", What: res.Failure}}
}

var all = []sched.Scenario{closesync{}, bufpipe{}, &counter{"racy", false}, &counter{"locked", true}, inversion{}, pipe{}}

func lookup(n string) sched.Scenario {
	for _, s := range all {
		if s.Name() == n {
			return s
		}
	}
	return nil
}

func main() {
	if sched.IsWorker() {
		sched.WorkerMain(lookup)
		return
	}
	want := map[string]string{"racy": "lost_update", "locked": "", "inversion": "deadlock", "pipe": "", "bufpipe": "", "closesync": ""}
	bad := false
	for _, s := range all {
		st, exh, left := sched.Explore([]sched.Scenario{s}, sched.Bounds{Preempt: 2, Faults: 0, Horizon: 500}, 4, time.Now().Add(30*time.Second), 0)
		got := ""
		if len(st.Violations) > 0 {
			got = st.Violations[0].Class
		}
		fmt.Printf("%-10s executions=%d points=%d outcomes=%v exhaustive=%v left=%d first=%q choices=%v\n", s.Name(), st.Executions, st.Points, st.Outcomes, exh, left, got, func() any {
			if len(st.Violations) > 0 {
				return st.Violations[0].Choices
			}
			return nil
		}())
		if got != want[s.Name()] {
			bad = true
		}
	}
	if bad {
		fmt.Println("SELFTEST FAILED")
		os.Exit(1)
	}
	fmt.Println("selftest ok")
}
