// Package vctx replaces package context in instrumented files.  Contexts are real context.Context values
// (signatures of uninstrumented code stay valid); cancellation and deadlines are driven by the scheduler.
package vctx

import (
	"context"
	"time"

	"verif/mc/sched"
)

type (
	Context         = context.Context
	CancelFunc      = context.CancelFunc
	CancelCauseFunc = context.CancelCauseFunc
)

var (
	Canceled         = context.Canceled
	DeadlineExceeded = context.DeadlineExceeded
)

func Background() Context                                   { return context.Background() }
func TODO() Context                                         { return context.TODO() }
func WithValue(parent Context, key, val any) Context        { return context.WithValue(parent, key, val) }
func Cause(c Context) error                                 { return context.Cause(c) }
func WithoutCancel(parent Context) Context                  { return context.WithoutCancel(parent) }
func AfterFunc(ctx Context, f func()) (stop func() bool)    { return context.AfterFunc(ctx, f) }

type ctxKey struct{}

var key ctxKey

type vctx struct {
	parent   context.Context
	done     chan struct{}
	err      error
	children []*vctx
	deadline time.Time
	hasDL    bool
	timer    *sched.Timer
}

func (c *vctx) Deadline() (time.Time, bool) {
	if c.hasDL {
		return c.deadline, true
	}
	return c.parent.Deadline()
}
func (c *vctx) Done() <-chan struct{} { return c.done }
func (c *vctx) Err() error {
	sched.Op(sched.OpCtx)
	return c.err
}
func (c *vctx) Value(k any) any {
	if k == key {
		return c
	}
	return c.parent.Value(k)
}

func (c *vctx) cancel(err error) {
	if c.err != nil {
		return
	}
	c.err = err
	if c.timer != nil {
		c.timer.Stop()
	}
	if sched.Active() {
		sched.CloseNoPoint(c.done)
	}
	for _, ch := range c.children {
		ch.cancel(err)
	}
}

func newCtx(parent Context) *vctx {
	c := &vctx{parent: parent, done: sched.MakeChan[struct{}](0)}
	if p, ok := parent.Value(key).(*vctx); ok && p != nil {
		if p.err != nil {
			c.cancel(p.err)
		} else {
			p.children = append(p.children, c)
		}
	} else if parent.Done() != nil {
		panic(sched.HarnessError{Msg: "vctx: parent is a real cancellable context; build it with the shim"})
	}
	return c
}

func WithCancel(parent Context) (Context, CancelFunc) {
	if !sched.Active() {
		return context.WithCancel(parent)
	}
	c := newCtx(parent)
	return c, func() {
		if !sched.Active() {
			return
		}
		sched.Op(sched.OpCtx)
		c.cancel(context.Canceled)
	}
}

func WithDeadline(parent Context, d time.Time) (Context, CancelFunc) {
	if !sched.Active() {
		return context.WithDeadline(parent, d)
	}
	return WithTimeout(parent, d.Sub(sched.Now()))
}

func WithTimeout(parent Context, d time.Duration) (Context, CancelFunc) {
	if !sched.Active() {
		return context.WithTimeout(parent, d)
	}
	c := newCtx(parent)
	c.deadline, c.hasDL = sched.Now().Add(d), true
	if c.err == nil {
		c.timer = sched.AddTimer(d, func() { c.cancel(context.DeadlineExceeded) })
	}
	return c, func() {
		if !sched.Active() {
			return
		}
		sched.Op(sched.OpCtx)
		c.cancel(context.Canceled)
	}
}
