// Package vatomic replaces sync/atomic in instrumented files: every operation is preceded by a scheduling point.
package vatomic

import (
	"sync/atomic"
	"unsafe"

	"verif/mc/sched"
)

func p() { sched.Op(sched.OpAtomic) }

func LoadInt32(a *int32) int32                        { p(); return atomic.LoadInt32(a) }
func LoadInt64(a *int64) int64                        { p(); return atomic.LoadInt64(a) }
func LoadUint32(a *uint32) uint32                     { p(); return atomic.LoadUint32(a) }
func LoadUint64(a *uint64) uint64                     { p(); return atomic.LoadUint64(a) }
func LoadPointer(a *unsafe.Pointer) unsafe.Pointer    { p(); return atomic.LoadPointer(a) }
func StoreInt32(a *int32, v int32)                    { p(); atomic.StoreInt32(a, v) }
func StoreInt64(a *int64, v int64)                    { p(); atomic.StoreInt64(a, v) }
func StoreUint32(a *uint32, v uint32)                 { p(); atomic.StoreUint32(a, v) }
func StoreUint64(a *uint64, v uint64)                 { p(); atomic.StoreUint64(a, v) }
func StorePointer(a *unsafe.Pointer, v unsafe.Pointer) { p(); atomic.StorePointer(a, v) }
func AddInt32(a *int32, d int32) int32                { p(); return atomic.AddInt32(a, d) }
func AddInt64(a *int64, d int64) int64                { p(); return atomic.AddInt64(a, d) }
func AddUint32(a *uint32, d uint32) uint32            { p(); return atomic.AddUint32(a, d) }
func AddUint64(a *uint64, d uint64) uint64            { p(); return atomic.AddUint64(a, d) }
func SwapInt32(a *int32, v int32) int32               { p(); return atomic.SwapInt32(a, v) }
func SwapInt64(a *int64, v int64) int64               { p(); return atomic.SwapInt64(a, v) }
func SwapUint32(a *uint32, v uint32) uint32           { p(); return atomic.SwapUint32(a, v) }
func SwapUint64(a *uint64, v uint64) uint64           { p(); return atomic.SwapUint64(a, v) }
func CompareAndSwapInt32(a *int32, o, n int32) bool   { p(); return atomic.CompareAndSwapInt32(a, o, n) }
func CompareAndSwapInt64(a *int64, o, n int64) bool   { p(); return atomic.CompareAndSwapInt64(a, o, n) }
func CompareAndSwapUint32(a *uint32, o, n uint32) bool { p(); return atomic.CompareAndSwapUint32(a, o, n) }
func CompareAndSwapUint64(a *uint64, o, n uint64) bool { p(); return atomic.CompareAndSwapUint64(a, o, n) }

type Int32 struct{ v atomic.Int32 }

func (x *Int32) Load() int32                     { p(); return x.v.Load() }
func (x *Int32) Store(v int32)                   { p(); x.v.Store(v) }
func (x *Int32) Add(d int32) int32               { p(); return x.v.Add(d) }
func (x *Int32) Swap(v int32) int32              { p(); return x.v.Swap(v) }
func (x *Int32) CompareAndSwap(o, n int32) bool  { p(); return x.v.CompareAndSwap(o, n) }

type Int64 struct{ v atomic.Int64 }

func (x *Int64) Load() int64                     { p(); return x.v.Load() }
func (x *Int64) Store(v int64)                   { p(); x.v.Store(v) }
func (x *Int64) Add(d int64) int64               { p(); return x.v.Add(d) }
func (x *Int64) Swap(v int64) int64              { p(); return x.v.Swap(v) }
func (x *Int64) CompareAndSwap(o, n int64) bool  { p(); return x.v.CompareAndSwap(o, n) }

type Uint32 struct{ v atomic.Uint32 }

func (x *Uint32) Load() uint32                    { p(); return x.v.Load() }
func (x *Uint32) Store(v uint32)                  { p(); x.v.Store(v) }
func (x *Uint32) Add(d uint32) uint32             { p(); return x.v.Add(d) }
func (x *Uint32) CompareAndSwap(o, n uint32) bool { p(); return x.v.CompareAndSwap(o, n) }

type Uint64 struct{ v atomic.Uint64 }

func (x *Uint64) Load() uint64                    { p(); return x.v.Load() }
func (x *Uint64) Store(v uint64)                  { p(); x.v.Store(v) }
func (x *Uint64) Add(d uint64) uint64             { p(); return x.v.Add(d) }
func (x *Uint64) CompareAndSwap(o, n uint64) bool { p(); return x.v.CompareAndSwap(o, n) }

type Bool struct{ v atomic.Bool }

func (x *Bool) Load() bool                    { p(); return x.v.Load() }
func (x *Bool) Store(v bool)                  { p(); x.v.Store(v) }
func (x *Bool) Swap(v bool) bool              { p(); return x.v.Swap(v) }
func (x *Bool) CompareAndSwap(o, n bool) bool { p(); return x.v.CompareAndSwap(o, n) }

type Value struct{ v atomic.Value }

func (x *Value) Load() any     { p(); return x.v.Load() }
func (x *Value) Store(v any)   { p(); x.v.Store(v) }
func (x *Value) Swap(v any) any { p(); return x.v.Swap(v) }

type Pointer[T any] struct{ v atomic.Pointer[T] }

func (x *Pointer[T]) Load() *T                   { p(); return x.v.Load() }
func (x *Pointer[T]) Store(v *T)                 { p(); x.v.Store(v) }
func (x *Pointer[T]) Swap(v *T) *T               { p(); return x.v.Swap(v) }
func (x *Pointer[T]) CompareAndSwap(o, n *T) bool { p(); return x.v.CompareAndSwap(o, n) }
