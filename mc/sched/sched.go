// Package sched is engine E1: a cooperative controlled scheduler plus a stateless, deviation-bounded explorer.
//
// Every goroutine of the code under test is a real goroutine that runs only while it holds the baton.  At each
// visible operation (lock, atomic, channel op, spawn, context cancel, sleep, statement-level Yield outside of
// critical sections, environment Choose) the running thread calls into this package; the scheduler decides who
// runs next according to the current choice sequence.  One execution at a time per process (global state);
// parallelism is by worker processes (see explore.go).
package sched

import (
	"fmt"
	"os"
	"runtime"
	"sort"
	"strings"
	"time"
)

type OpKind uint8

const (
	OpStart OpKind = iota
	OpYield
	OpLock
	OpAtomic
	OpChan
	OpSpawn
	OpWait
	OpSleep
	OpCtx
	OpChoose
	OpEnd
)

var opNames = [...]string{"start", "yield", "lock", "atomic", "chan", "spawn", "wait", "sleep", "ctx", "choose", "end"}

func (k OpKind) String() string { return opNames[k] }

// Thread is one controlled goroutine.
type Thread struct {
	ID     int
	Name   string
	Daemon bool // daemon threads need not finish for the execution to be complete

	wake   chan struct{}
	exited chan struct{}
	done   bool

	kind  OpKind
	ready func() bool // enabledness of the pending operation; nil = always enabled
	sel   *selOp      // pending channel operation (send/recv/select), nil otherwise
	locks int         // number of shim locks held (Yield is a no-op inside critical sections)
	site  string
}

// alternative kinds at a decision point
const (
	altThread = 0
	altTimer  = 1
	altChoice = 2
)

// Point is one recorded decision.
type Point struct {
	N      int16 // number of alternatives
	Chosen int16 // index taken
	Kind   uint8 // ptThreads | ptFault | ptPreempt
	// ptThreads: alternatives 1.. are other threads (cost 1 scheduling deviation each); if TimerAlt the
	// last alternative is "fire the next timer early" (cost 1 fault).  ptFault / ptPreempt: an environment /
	// select-case choice whose non-default alternatives cost 1 fault / 1 preemption.
	FromEnabled bool
	TimerAlt    bool
	UsedP       int16 // budget used before this point
	UsedF       int16
	UsedT       int16
}

const (
	ptThreads = iota
	ptFault
	ptPreempt
)

// Cost returns the (preemption, fault) cost of taking alternative alt at this point.
func (p Point) Cost(alt int) (int, int) {
	if alt == 0 {
		return 0, 0
	}
	switch p.Kind {
	case ptFault:
		return 0, 1
	case ptPreempt:
		return 1, 0
	}
	if p.TimerAlt && alt == int(p.N)-1 {
		return 0, 100 // charged to the separate timer budget, see CostT
	}
	// delay bounding: every departure from the default deterministic schedule (keep running; when the running
	// thread blocks, lowest thread id first) costs one unit, whether or not it preempts a runnable thread.
	// Charging only true preemptions (CHESS) left an exponential number of free orders at blocking points here.
	return 1, 0
}

// Exec is the state of the current execution.
type Exec struct {
	threads []*Thread
	cur     *Thread
	prefix  []int
	Points  []Point
	steps   int
	horizon int
	usedP   int
	usedF   int
	usedT   int

	now    int64 // virtual nanoseconds since Epoch
	timers []*Timer
	tseq   int64

	aborting bool
	over     chan struct{}
	Failure  string // "", "deadlock", "horizon", "panic: ..."
	Diverged string // non-empty: the prefix could not be replayed (uncaptured nondeterminism)
	trace    bool
	Trace    []string
	chans    map[uintptr]*chanState
	chanSeq  int
	// DisableTimerDeviation: timers fire only when every thread is blocked
	noEarlyTimers bool
	noYields      bool // statement-level Yield points disabled (sync operations only)
	warmup        bool // deterministic, unrecorded scheduling (see Quiesce)
	warmMain      *Thread
	enBuf         []*Thread
	maxP, maxF    int // budgets: alternatives beyond them are not even recorded as explorable (still listed)
}

// E is the current execution (nil when free-running).
var E *Exec

// Epoch is the virtual wall-clock origin.
var Epoch = time.Date(2024, 1, 10, 12, 0, 0, 0, time.UTC)

// Active reports whether a controlled execution is in progress (and not being torn down).
func Active() bool { return E != nil && !E.aborting }

// Aborting reports teardown: shims must become non-blocking no-ops.
func Aborting() bool { return E != nil && E.aborting }

func cur() *Thread { return E.cur }

// Cur returns the running thread (nil when free-running).
func Cur() *Thread {
	if E == nil {
		return nil
	}
	return E.cur
}

// ---------------------------------------------------------------------------------------------------
// running one execution

// Options of one execution.
type Options struct {
	Prefix        []int
	Horizon       int // max decisions+steps; 0 = 5000
	Trace         bool
	NoEarlyTimers bool
	NoYields      bool
	RealTimeout   time.Duration // watchdog for code blocking on real primitives; 0 = 20s
}

// Result of one execution.
type Result struct {
	Points  []Point
	Choices []int
	Failure string
	// Diverged is non-empty when the prefix could not be followed: nothing may be concluded from this execution
	Diverged string
	Steps    int
	Trace   []string
	// Unfinished lists the non-daemon threads that had not finished at the end (deadlock/horizon), with their pending op
	Unfinished []string
	Leaked     []string // daemon or non-daemon threads still blocked at the end (informational)
	VirtualNS  int64
}

// HarnessError is raised (panic) for conditions that are failures of the machinery, never verdicts.
type HarnessError struct{ Msg string }

func (h HarnessError) Error() string { return h.Msg }

// Run executes main as thread 0 under the scheduler, following opts.Prefix and then default choices.
func Run(opts Options, main func()) (res Result) {
	if E != nil {
		panic(HarnessError{"sched.Run: nested execution"})
	}
	e := &Exec{prefix: opts.Prefix, horizon: opts.Horizon, over: make(chan struct{}, 1), trace: opts.Trace,
		chans: map[uintptr]*chanState{}, noEarlyTimers: opts.NoEarlyTimers, noYields: opts.NoYields}
	if e.horizon == 0 {
		e.horizon = 5000
	}
	E = e
	t0 := e.newThread("main", false, main)
	e.cur = t0
	t0.wake <- struct{}{}
	to := opts.RealTimeout
	if to == 0 {
		to = 20 * time.Second
	}
	select {
	case <-e.over:
	case <-time.After(to):
		buf := make([]byte, 1<<20)
		n := runtime.Stack(buf, true)
		fmt.Fprintf(os.Stderr, "HARNESS-ERROR: execution blocked on an uncontrolled primitive (prefix %v)\n%s\n", opts.Prefix, buf[:n])
		os.Exit(2)
	}
	// teardown: abort every parked thread, one at a time
	e.aborting = true
	for i := 0; i < len(e.threads); i++ { // threads may not grow during abort (Go is a no-op then)
		t := e.threads[i]
		if t.done {
			continue
		}
		desc := fmt.Sprintf("%s#%d@%s", t.Name, t.ID, t.kind)
		if t.site != "" {
			desc += "(" + t.site + ")"
		}
		if !t.Daemon {
			res.Unfinished = append(res.Unfinished, desc)
		}
		res.Leaked = append(res.Leaked, desc)
		t.wake <- struct{}{}
		select {
		case <-t.exited:
		case <-time.After(to):
			fmt.Fprintf(os.Stderr, "HARNESS-ERROR: thread %s did not exit on abort\n", desc)
			os.Exit(2)
		}
	}
	res.Points = e.Points
	res.Choices = make([]int, len(e.Points))
	for i, p := range e.Points {
		res.Choices[i] = int(p.Chosen)
	}
	res.Failure = e.Failure
	res.Diverged = e.Diverged
	res.Steps = e.steps
	res.Trace = e.Trace
	res.VirtualNS = e.now
	E = nil
	return res
}

func (e *Exec) newThread(name string, daemon bool, fn func()) *Thread {
	t := &Thread{ID: len(e.threads), Name: name, Daemon: daemon, wake: make(chan struct{}, 1), exited: make(chan struct{})}
	e.threads = append(e.threads, t)
	go func() {
		defer close(t.exited)
		<-t.wake
		if e.aborting {
			return
		}
		defer func() {
			// runs on normal return, on panic and on Goexit
			if r := recover(); r != nil {
				if he, ok := r.(HarnessError); ok {
					fmt.Fprintln(os.Stderr, "HARNESS-ERROR:", he.Msg)
					os.Exit(2)
				}
				if !e.aborting {
					buf := make([]byte, 8192)
					n := runtime.Stack(buf, false)
					e.fail(fmt.Sprintf("panic in thread %s: %v", t.Name, r), string(buf[:n]))
					t.done = true
					e.finish()
					return
				}
			}
			if e.aborting {
				return
			}
			t.done = true
			t.kind = OpEnd
			e.handoff(t) // pick the next thread; never returns control here
		}()
		fn()
	}()
	return t
}

func (e *Exec) fail(msg, detail string) {
	if e.Failure == "" {
		e.Failure = msg
		if e.trace && detail != "" {
			e.Trace = append(e.Trace, detail)
		}
	}
}

// finish ends the execution (called by the running thread).
func (e *Exec) finish() {
	select {
	case e.over <- struct{}{}:
	default:
	}
}

// Go spawns a controlled thread running fn.
func Go(fn func()) { GoNamed("", false, fn) }

// GoNamed spawns a controlled thread.
func GoNamed(name string, daemon bool, fn func()) {
	if E == nil {
		go fn()
		return
	}
	if E.aborting {
		return
	}
	e := E
	if name == "" {
		name = "g" + callerSite(2)
	}
	// threads spawned by a daemon are daemons (the Run loops of the insert services never return)
	t := e.newThread(name, daemon || e.cur.Daemon, fn)
	t.kind = OpStart
	point(OpSpawn, nil)
}

// SetDaemon marks the running thread as a daemon (it need not finish).
func SetDaemon(d bool) {
	if Active() {
		cur().Daemon = d
	}
}

// SetName names the running thread.
func SetName(n string) {
	if Active() {
		cur().Name = n
	}
}

func callerSite(skip int) string {
	_, f, l, ok := runtime.Caller(skip)
	if !ok {
		return "?"
	}
	if i := strings.LastIndexByte(f, '/'); i >= 0 {
		f = f[i+1:]
	}
	return fmt.Sprintf("%s:%d", f, l)
}

// Yield is the statement-level scheduling point inserted by the rewriter.  Inside a critical section (a shim
// lock is held) it does nothing: under data-race freedom a critical section is atomic.
func Yield() {
	if E == nil || E.aborting {
		return
	}
	if E.noYields || cur().locks > 0 {
		return
	}
	point(OpYield, nil)
}

// Op is an always-enabled visible operation.
func Op(kind OpKind) {
	if E == nil || E.aborting {
		return
	}
	point(kind, nil)
}

// Block is a visible operation that is enabled only when ready() holds.
func Block(kind OpKind, ready func() bool) {
	if E == nil || E.aborting {
		return
	}
	point(kind, ready)
}

// LockDepth adjusts the number of shim locks held by the running thread.
func LockDepth(d int) {
	if E == nil || E.aborting {
		return
	}
	cur().locks += d
}

// point parks the caller until the scheduler picks it with its operation enabled.
func point(kind OpKind, ready func() bool) {
	e := E
	t := e.cur
	t.kind = kind
	t.ready = ready
	if e.trace {
		t.site = traceSite()
	}
	e.handoff(t)
	t.ready = nil
}

func traceSite() string {
	pc := make([]uintptr, 16)
	n := runtime.Callers(3, pc)
	fr := runtime.CallersFrames(pc[:n])
	for {
		f, more := fr.Next()
		if !strings.Contains(f.File, "/mc/sched/") {
			// function name, not file:line: instrumented copies have shifted line numbers, and classes of
			// findings are built from these sites
			fn := f.Function
			if i := strings.LastIndexByte(fn, '/'); i >= 0 {
				fn = fn[i+1:]
			}
			return fn
		}
		if !more {
			return "?"
		}
	}
}

func (t *Thread) enabled() bool {
	if t.done {
		return false
	}
	return t.ready == nil || t.ready()
}

// handoff decides who runs next and transfers the baton.  from is the running thread (possibly finished).
func (e *Exec) handoff(from *Thread) {
	next := e.decide(from)
	if next == nil {
		// execution over
		e.finish()
		if from.done {
			return
		}
		<-from.wake
		if e.aborting {
			runtime.Goexit()
		}
		return
	}
	if next == from {
		return
	}
	e.cur = next
	next.wake <- struct{}{}
	if from.done {
		return
	}
	<-from.wake
	if e.aborting {
		runtime.Goexit()
	}
}

// choose records/replays one decision among n alternatives and returns the index taken.
func (e *Exec) choose(n int, kind uint8, fromEnabled, timerAlt bool, desc func(i int) string) int {
	idx := 0
	i := len(e.Points)
	if i < len(e.prefix) {
		idx = e.prefix[i]
		if idx < 0 || idx >= n {
			// The same prefix led to a different set of alternatives than in the execution that produced it:
			// some nondeterminism is not behind a seam (Go map iteration in uninstrumented code, ...).  The
			// execution is marked and finished with default choices; the explorer counts it, judges nothing on
			// it and does not expand it (a panic here could be swallowed by the code's own recover handlers).
			if e.Diverged == "" {
				e.Diverged = fmt.Sprintf("replayed choice %d out of range (n=%d) at point %d of prefix %v", idx, n, i, e.prefix)
			}
			idx = 0
		}
	}
	p := Point{N: int16(n), Chosen: int16(idx), Kind: kind, FromEnabled: fromEnabled, TimerAlt: timerAlt, UsedP: int16(e.usedP), UsedF: int16(e.usedF), UsedT: int16(e.usedT)}
	if e.trace {
		e.Trace = append(e.Trace, fmt.Sprintf("#%d choose %d/%d: %s", i, idx, n, desc(idx)))
	}
	e.Points = append(e.Points, p)
	if p.CostT(idx) == 1 {
		e.usedT++
	} else {
		cp, cf := p.Cost(idx)
		e.usedP += cp
		e.usedF += cf
	}
	return idx
}

// CostT reports whether alternative alt is an early timer firing (charged to the timer budget).
func (p Point) CostT(alt int) int {
	if p.Kind == ptThreads && p.TimerAlt && alt == int(p.N)-1 {
		return 1
	}
	return 0
}

// decide returns the next thread to run, firing timers when nothing is enabled; nil = execution over.
func (e *Exec) decide(from *Thread) *Thread {
	for {
		e.steps++
		if e.steps > e.horizon {
			e.fail("horizon", "")
			return nil
		}
		// completion: every non-daemon thread finished
		allDone := true
		for _, t := range e.threads {
			if !t.done && !t.Daemon {
				allDone = false
				break
			}
		}
		if allDone {
			return nil
		}
		en := e.enBuf[:0]
		fromEnabled := from.enabled()
		if fromEnabled {
			en = append(en, from)
		}
		for _, t := range e.threads {
			if t != from && t.enabled() {
				en = append(en, t)
			}
		}
		e.enBuf = en
		if e.warmup && len(en) > 0 {
			// warm-up: run everybody else to quiescence first, deterministically, nothing recorded
			for _, t := range en {
				if t != e.warmMain {
					return t
				}
			}
			return en[0]
		}
		timerAlt := 0
		if len(e.timers) > 0 && !e.noEarlyTimers && len(en) > 0 {
			timerAlt = 1
		}
		if len(en) == 0 {
			if len(e.timers) == 0 {
				e.fail("deadlock", "")
				return nil
			}
			e.fireNext() // forced: time advances only because nobody can run
			continue
		}
		n := len(en) + timerAlt
		if n == 1 {
			if e.trace {
				e.Trace = append(e.Trace, fmt.Sprintf("   run %s#%d %s %s", en[0].Name, en[0].ID, en[0].kind, en[0].site))
			}
			return en[0]
		}
		idx := e.choose(n, ptThreads, fromEnabled, timerAlt == 1, func(i int) string {
			if i < len(en) {
				return fmt.Sprintf("run %s#%d %s %s", en[i].Name, en[i].ID, en[i].kind, en[i].site)
			}
			return "fire next timer early"
		})
		if idx < len(en) {
			return en[idx]
		}
		e.fireNext()
	}
}

// Choose is an environment choice point with n alternatives; alternative 0 is the default answer.  Every other
// alternative costs one unit of the fault budget (fault=true) or of the preemption budget (fault=false).
func Choose(what string, n int, fault bool) int {
	if E == nil || E.aborting || n <= 1 {
		return 0
	}
	kind := uint8(ptPreempt)
	if fault {
		kind = ptFault
	}
	return E.choose(n, kind, false, false, func(i int) string { return fmt.Sprintf("%s=%d", what, i) })
}

// ---------------------------------------------------------------------------------------------------
// virtual time

type Timer struct {
	when    int64
	seq     int64
	fire    func()
	stopped bool
	fired   bool
}

// Now returns the virtual time.
func Now() time.Time {
	if E == nil {
		return time.Now()
	}
	return Epoch.Add(time.Duration(E.now))
}

// AddTimer registers fire to run (in scheduler context, must not block) after d of virtual time.
func AddTimer(d time.Duration, fire func()) *Timer {
	e := E
	if d < 0 {
		d = 0
	}
	e.tseq++
	tm := &Timer{when: e.now + int64(d), seq: e.tseq, fire: fire}
	e.timers = append(e.timers, tm)
	sort.SliceStable(e.timers, func(i, j int) bool {
		if e.timers[i].when != e.timers[j].when {
			return e.timers[i].when < e.timers[j].when
		}
		return e.timers[i].seq < e.timers[j].seq
	})
	return tm
}

// Stop removes the timer; reports whether it had not fired yet.
func (tm *Timer) Stop() bool {
	if tm.fired || tm.stopped {
		return false
	}
	tm.stopped = true
	if E != nil {
		for i, x := range E.timers {
			if x == tm {
				E.timers = append(E.timers[:i], E.timers[i+1:]...)
				break
			}
		}
	}
	return true
}

func (e *Exec) fireNext() {
	tm := e.timers[0]
	e.timers = e.timers[1:]
	if tm.when > e.now {
		e.now = tm.when
	}
	tm.fired = true
	if e.trace {
		e.Trace = append(e.Trace, fmt.Sprintf("   timer fires at +%v", time.Duration(e.now)))
	}
	tm.fire()
}

// Sleep blocks the running thread for d of virtual time.
func Sleep(d time.Duration) {
	if E == nil {
		time.Sleep(d)
		return
	}
	if E.aborting {
		return
	}
	woke := false
	AddTimer(d, func() { woke = true })
	point(OpSleep, func() bool { return woke })
}

// SpawnNoPoint creates a controlled thread from scheduler context (timer callbacks); it becomes runnable at the
// next decision.
func SpawnNoPoint(name string, fn func()) {
	if !Active() {
		return
	}
	t := E.newThread(name, false, fn)
	t.kind = OpStart
}

// Quiesce runs every other thread, deterministically and without recording decisions, until all of them are
// blocked; then the caller continues.  Used by drivers to get a system past its start-up (service loops parked
// in their select) before the explored part begins: start-up interleavings are not part of any property here.
func Quiesce() {
	if !Active() {
		return
	}
	e := E
	t := e.cur
	e.warmup, e.warmMain = true, t
	point(OpWait, func() bool {
		for _, u := range e.threads {
			if u != t && u.enabled() {
				return false
			}
		}
		return true
	})
	e.warmup, e.warmMain = false, nil
}
