package sched

import (
	"bufio"
	"encoding/json"
	"fmt"
	"io"
	"os"
	"os/exec"
	"sort"
	"strconv"
	"sync"
	"time"
)

// Scenario is one closed system: a driver that builds real objects, spawns threads and, when the execution is
// over, checks the oracle on the observation log it collected.
type Scenario interface {
	// Name identifies the scenario (stable across processes: workers look it up by name).
	Name() string
	// Run is the body of thread 0 of one execution; it must build everything afresh.  It returns an
	// observation object that Check (called after teardown, outside the scheduler) inspects.
	Run() any
	// Check returns "" when the oracle holds for this execution, else a (class, description) of the violation.
	// outcome is a short canonical string describing what was observed (counted for "distinct outcomes").
	Check(obs any, res *Result) (outcome string, violations []Finding)
}

// Finding is one oracle failure.
type Finding struct {
	Class string `json:"class"`
	What  string `json:"what"`
}

// Bounds of the exploration.
type Bounds struct {
	Preempt int `json:"preempt"`
	Faults  int `json:"faults"`
	Timers  int `json:"timers"` // early timer firings (a timer fires although some thread is runnable)
	Horizon int `json:"horizon"`
	// NoYields: scheduling points only at synchronisation operations (complete for data-race-free code);
	// false: additionally before every statement that touches shared memory outside a critical section
	NoYields bool `json:"no_yields"`
}

// Item is a unit of work: explore the subtree under Prefix of scenario Scn.
type Item struct {
	Scn    string `json:"scn"`
	Prefix []int  `json:"prefix"`
}

// Replay identifies one execution completely.
type Replay struct {
	Scn     string   `json:"scenario"`
	Bounds  Bounds   `json:"bounds"`
	Choices []int    `json:"choices"`
	Class   string   `json:"class"`
	What    string   `json:"what"`
	Trace   []string `json:"trace,omitempty"`
}

// Stats accumulated over executions.
type Stats struct {
	Executions int64            `json:"executions"`
	Steps      int64            `json:"steps"`
	Points     int64            `json:"points"`
	MaxPoints  int              `json:"max_points"`
	Outcomes   map[string]int64 `json:"outcomes"`
	Violations []Replay         `json:"violations"`
	PerScn     map[string]int64 `json:"per_scenario"`
	Pruned     int64            `json:"alternatives_beyond_bounds"`
	// Diverged: executions whose prefix could not be replayed (uncaptured nondeterminism); nothing is concluded
	// from them.  Unreproducible: findings whose immediate replay did not fail the same way; not reported.
	Diverged       int64    `json:"diverged_executions"`
	Unreproducible int64    `json:"unreproducible_findings"`
	Notes          []string `json:"notes,omitempty"`
}

// Merge adds o into s.
func (s *Stats) Merge(o *Stats) { s.merge(o) }

func (s *Stats) merge(o *Stats) {
	s.Executions += o.Executions
	s.Steps += o.Steps
	s.Points += o.Points
	s.Pruned += o.Pruned
	s.Diverged += o.Diverged
	s.Unreproducible += o.Unreproducible
	for _, n := range o.Notes {
		if len(s.Notes) < 10 {
			s.Notes = append(s.Notes, n)
		}
	}
	if o.MaxPoints > s.MaxPoints {
		s.MaxPoints = o.MaxPoints
	}
	if s.Outcomes == nil {
		s.Outcomes = map[string]int64{}
	}
	for k, v := range o.Outcomes {
		s.Outcomes[k] += v
	}
	if s.PerScn == nil {
		s.PerScn = map[string]int64{}
	}
	for k, v := range o.PerScn {
		s.PerScn[k] += v
	}
	// at most 5 replays per class (and 200 in all): a flood of one class must not crowd out another one
	perClass := map[string]int{}
	for _, v := range s.Violations {
		perClass[v.Class]++
	}
	for _, v := range o.Violations {
		if perClass[v.Class] < 5 && len(s.Violations) < 200 {
			perClass[v.Class]++
			s.Violations = append(s.Violations, v)
		}
	}
}

// RunOne executes one choice sequence of a scenario and checks it.
func RunOne(sc Scenario, b Bounds, prefix []int, trace bool) (Result, string, []Finding) {
	var obs any
	res := Run(Options{Prefix: prefix, Horizon: b.Horizon, Trace: trace, NoEarlyTimers: b.Timers == 0, NoYields: b.NoYields}, func() { obs = sc.Run() })
	outcome, fs := sc.Check(obs, &res)
	return res, outcome, fs
}

// exploreLocal explores the subtree under item.Prefix depth-first, at most maxExec executions; the unexplored
// remainder of the stack is returned as new items.
// ExploreLocal explores in this process (see exploreLocal).
func ExploreLocal(sc Scenario, b Bounds, item Item, maxExec int, deadline time.Time) (*Stats, []Item) {
	return exploreLocal(sc, b, item, maxExec, deadline)
}

func exploreLocal(sc Scenario, b Bounds, item Item, maxExec int, deadline time.Time) (*Stats, []Item) {
	st := &Stats{Outcomes: map[string]int64{}, PerScn: map[string]int64{}}
	stack := [][]int{item.Prefix}
	n := 0
	for len(stack) > 0 {
		if n >= maxExec || (!deadline.IsZero() && n%16 == 0 && time.Now().After(deadline)) {
			break
		}
		prefix := stack[len(stack)-1]
		stack = stack[:len(stack)-1]
		res, outcome, fs := RunOne(sc, b, prefix, false)
		n++
		if res.Diverged != "" {
			st.Diverged++
			if len(st.Notes) < 3 {
				st.Notes = append(st.Notes, sc.Name()+": "+res.Diverged)
			}
			continue
		}
		st.Executions++
		st.PerScn[sc.Name()]++
		st.Steps += int64(res.Steps)
		st.Points += int64(len(res.Points))
		if len(res.Points) > st.MaxPoints {
			st.MaxPoints = len(res.Points)
		}
		st.Outcomes[outcome]++
		if len(fs) > 0 {
			// determinism discipline: the same schedule must fail the same way again before it is believed
			res2, _, fs2 := RunOne(sc, b, res.Choices, true)
			if res2.Diverged != "" || len(fs2) == 0 || fs2[0].Class != fs[0].Class || !sameChoices(res.Choices, res2.Choices) {
				// not believed: the same schedule must fail the same way every time
				st.Unreproducible++
				if len(st.Notes) < 3 {
					st.Notes = append(st.Notes, fmt.Sprintf("%s: schedule %v failed with %v, its replay gave %v (%s)", sc.Name(), res.Choices, fs, fs2, res2.Diverged))
				}
				fs2 = nil
			}
			for _, f := range fs2 { // findings of the traced replay carry the parking sites
				n := 0
				for _, v := range st.Violations {
					if v.Class == f.Class {
						n++
					}
				}
				if n < 3 && len(st.Violations) < 40 { // per class, so that a flood of one class does not hide another
					st.Violations = append(st.Violations, Replay{Scn: sc.Name(), Bounds: b, Choices: res.Choices, Class: f.Class, What: f.What, Trace: res2.Trace})
				}
			}
		}
		if len(res.Points) < len(prefix) {
			st.Diverged++ // the execution ended before the prefix was used up: same treatment as above
			st.Executions--
			continue
		}
		// children, pushed in reverse so that the simplest deviations are explored first
		for i := len(res.Points) - 1; i >= len(prefix); i-- {
			p := res.Points[i]
			for alt := int(p.N) - 1; alt >= 1; alt-- {
				cp, cf := p.Cost(alt)
				if ct := p.CostT(alt); ct == 1 {
					cp, cf = 0, 0
					if int(p.UsedT)+1 > b.Timers {
						st.Pruned++
						continue
					}
				}
				if int(p.UsedP)+cp > b.Preempt || int(p.UsedF)+cf > b.Faults {
					st.Pruned++
					continue
				}
				child := make([]int, i+1)
				copy(child, res.Choices[:i])
				child[i] = alt
				stack = append(stack, child)
			}
		}
	}
	var rest []Item
	for _, p := range stack {
		rest = append(rest, Item{Scn: item.Scn, Prefix: p})
	}
	return st, rest
}

func sameChoices(a, b []int) bool {
	if len(a) != len(b) {
		return false
	}
	for i := range a {
		if a[i] != b[i] {
			return false
		}
	}
	return true
}

// ---------------------------------------------------------------------------------------------------
// worker protocol: the same binary started with VERIF_SCHED_WORKER=1 reads items from stdin and answers on stdout

type workReq struct {
	Item    Item   `json:"item"`
	Bounds  Bounds `json:"bounds"`
	MaxExec int    `json:"max_exec"`
	Budget  int64  `json:"budget_ms"`
}

type workResp struct {
	Stats *Stats `json:"stats"`
	Rest  []Item `json:"rest"`
}

// IsWorker reports whether this process was started as an exploration worker.
func IsWorker() bool { return os.Getenv("VERIF_SCHED_WORKER") == "1" }

// WorkerMain serves exploration requests until stdin closes.
func WorkerMain(lookup func(name string) Scenario) {
	in := bufio.NewReaderSize(os.Stdin, 1<<20)
	// responses go to fd 3; fd 1 of a worker is the parent's stderr, so nothing the code under test prints can
	// corrupt the protocol
	out := bufio.NewWriter(os.NewFile(3, "resp"))
	dec := json.NewDecoder(in)
	enc := json.NewEncoder(out)
	for {
		var rq workReq
		if err := dec.Decode(&rq); err != nil {
			if err == io.EOF {
				return
			}
			fmt.Fprintln(os.Stderr, "HARNESS-ERROR: worker decode:", err)
			os.Exit(2)
		}
		sc := lookup(rq.Item.Scn)
		if sc == nil {
			fmt.Fprintln(os.Stderr, "HARNESS-ERROR: unknown scenario", rq.Item.Scn)
			os.Exit(2)
		}
		var dl time.Time
		if rq.Budget > 0 {
			dl = time.Now().Add(time.Duration(rq.Budget) * time.Millisecond)
		}
		st, rest := exploreLocal(sc, rq.Bounds, rq.Item, rq.MaxExec, dl)
		enc.Encode(workResp{Stats: st, Rest: rest})
		out.Flush()
	}
}

// Explore runs the exhaustive bounded exploration of all scenarios on `workers` worker processes.
// It returns the merged statistics and whether the whole space within the bounds was covered (false when the
// deadline stopped it; the number of items left is reported).
func Explore(scenarios []Scenario, b Bounds, workers int, deadline time.Time, maxViolations int) (*Stats, bool, int) {
	total := &Stats{Outcomes: map[string]int64{}, PerScn: map[string]int64{}}
	var mu sync.Mutex
	var queue []Item
	for _, s := range scenarios {
		queue = append(queue, Item{Scn: s.Name()})
	}
	inflight := 0
	cond := sync.NewCond(&mu)
	stop := false
	exe, err := os.Executable()
	if err != nil {
		panic(HarnessError{"os.Executable: " + err.Error()})
	}
	var wg sync.WaitGroup
	for w := 0; w < workers; w++ {
		wg.Add(1)
		go func(w int) {
			defer wg.Done()
			cmd := exec.Command(exe)
			cmd.Env = append(os.Environ(), "VERIF_SCHED_WORKER=1", "GOMAXPROCS=1", "VERIF_WORKER_ID="+strconv.Itoa(w))
			cmd.Stderr = os.Stderr
			cmd.Stdout = os.Stderr
			stdin, _ := cmd.StdinPipe()
			stdout, wpipe, perr := os.Pipe()
			if perr != nil {
				panic(HarnessError{"pipe: " + perr.Error()})
			}
			cmd.ExtraFiles = []*os.File{wpipe}
			if err := cmd.Start(); err != nil {
				panic(HarnessError{"worker start: " + err.Error()})
			}
			wpipe.Close()
			enc := json.NewEncoder(stdin)
			dec := json.NewDecoder(bufio.NewReaderSize(stdout, 1<<20))
			defer func() { stdin.Close(); cmd.Wait() }()
			for {
				mu.Lock()
				for len(queue) == 0 && inflight > 0 && !stop {
					cond.Wait()
				}
				if stop || (len(queue) == 0 && inflight == 0) {
					mu.Unlock()
					cond.Broadcast()
					return
				}
				// LIFO keeps the frontier small; split big subtrees by bounding executions per request
				it := queue[len(queue)-1]
				queue = queue[:len(queue)-1]
				inflight++
				mu.Unlock()
				left := time.Until(deadline).Milliseconds()
				if left < 1 {
					left = 1
				}
				if err := enc.Encode(workReq{Item: it, Bounds: b, MaxExec: 400, Budget: left}); err != nil {
					fmt.Fprintln(os.Stderr, "HARNESS-ERROR: worker write:", err)
					os.Exit(2)
				}
				var rp workResp
				if err := dec.Decode(&rp); err != nil {
					fmt.Fprintf(os.Stderr, "HARNESS-ERROR: worker %d died on item %v: %v\n", w, it, err)
					os.Exit(2)
				}
				mu.Lock()
				inflight--
				total.merge(rp.Stats)
				queue = append(queue, rp.Rest...)
				if time.Now().After(deadline) || (maxViolations > 0 && len(total.Violations) >= maxViolations) {
					stop = true
				}
				mu.Unlock()
				cond.Broadcast()
			}
		}(w)
	}
	wg.Wait()
	sort.Slice(total.Violations, func(i, j int) bool { return len(total.Violations[i].Choices) < len(total.Violations[j].Choices) })
	return total, len(queue) == 0 && !(maxViolations > 0 && len(total.Violations) >= maxViolations && stop && len(queue) > 0), len(queue)
}

// ReplayFile re-runs the execution recorded in a replay file written by ev.Violate for a sched.Replay (the
// document has the form {"replay": {scenario, bounds, choices, ...}}) with tracing on.
func ReplayFile(path string, lookup func(string) Scenario) (Replay, Result, string, []Finding, error) {
	raw, err := os.ReadFile(path)
	if err != nil {
		return Replay{}, Result{}, "", nil, err
	}
	var doc struct {
		Replay Replay `json:"replay"`
	}
	if err := json.Unmarshal(raw, &doc); err != nil {
		return Replay{}, Result{}, "", nil, err
	}
	sc := lookup(doc.Replay.Scn)
	if sc == nil {
		return doc.Replay, Result{}, "", nil, fmt.Errorf("unknown scenario %q", doc.Replay.Scn)
	}
	res, outcome, fs := RunOne(sc, doc.Replay.Bounds, doc.Replay.Choices, true)
	return doc.Replay, res, outcome, fs, nil
}
