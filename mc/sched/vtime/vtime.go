// Package vtime replaces package time in instrumented files: a virtual clock owned by the scheduler.
package vtime

import (
	"time"

	"verif/mc/sched"
)

type (
	Duration   = time.Duration
	Time       = time.Time
	Month      = time.Month
	Weekday    = time.Weekday
	Location   = time.Location
	ParseError = time.ParseError
)

const (
	Nanosecond  = time.Nanosecond
	Microsecond = time.Microsecond
	Millisecond = time.Millisecond
	Second      = time.Second
	Minute      = time.Minute
	Hour        = time.Hour

	Layout      = time.Layout
	ANSIC       = time.ANSIC
	UnixDate    = time.UnixDate
	RFC822      = time.RFC822
	RFC1123     = time.RFC1123
	RFC3339     = time.RFC3339
	RFC3339Nano = time.RFC3339Nano
	Kitchen     = time.Kitchen
	DateTime    = time.DateTime
	DateOnly    = time.DateOnly
	TimeOnly    = time.TimeOnly

	January = time.January
)

var (
	UTC   = time.UTC
	Local = time.Local
)

func Unix(s, ns int64) Time                    { return time.Unix(s, ns) }
func UnixMilli(ms int64) Time                  { return time.UnixMilli(ms) }
func UnixMicro(us int64) Time                  { return time.UnixMicro(us) }
func Date(y int, m Month, d, h, mi, s, ns int, l *Location) Time {
	return time.Date(y, m, d, h, mi, s, ns, l)
}
func Parse(layout, v string) (Time, error)                       { return time.Parse(layout, v) }
func ParseInLocation(layout, v string, l *Location) (Time, error) { return time.ParseInLocation(layout, v, l) }
func ParseDuration(s string) (Duration, error)                   { return time.ParseDuration(s) }
func LoadLocation(n string) (*Location, error)                   { return time.LoadLocation(n) }
func FixedZone(n string, off int) *Location                      { return time.FixedZone(n, off) }

func Now() Time                 { return sched.Now() }
func Since(t Time) Duration     { return sched.Now().Sub(t) }
func Until(t Time) Duration     { return t.Sub(sched.Now()) }
func Sleep(d Duration)          { sched.Sleep(d) }

type Ticker struct {
	C     <-chan Time
	c     chan Time
	real  *time.Ticker
	d     Duration
	timer *sched.Timer
	stop  bool
}

func NewTicker(d Duration) *Ticker {
	if !sched.Active() {
		r := time.NewTicker(d)
		return &Ticker{C: r.C, real: r}
	}
	if d <= 0 {
		panic("non-positive interval for NewTicker")
	}
	t := &Ticker{c: sched.MakeChan[Time](1), d: d}
	t.C = t.c
	t.arm()
	return t
}

func (t *Ticker) arm() {
	t.timer = sched.AddTimer(t.d, func() {
		if t.stop {
			return
		}
		sched.PushNoPoint(t.c, sched.Now())
		t.arm()
	})
}

func (t *Ticker) Stop() {
	if t.real != nil {
		t.real.Stop()
		return
	}
	t.stop = true
	if t.timer != nil {
		t.timer.Stop()
	}
}

func (t *Ticker) Reset(d Duration) {
	if t.real != nil {
		t.real.Reset(d)
		return
	}
	t.Stop()
	t.stop, t.d = false, d
	if sched.Active() {
		t.arm()
	}
}

func Tick(d Duration) <-chan Time { return NewTicker(d).C }

type Timer struct {
	C     <-chan Time
	c     chan Time
	real  *time.Timer
	timer *sched.Timer
	f     func()
}

func NewTimer(d Duration) *Timer {
	if !sched.Active() {
		r := time.NewTimer(d)
		return &Timer{C: r.C, real: r}
	}
	t := &Timer{c: sched.MakeChan[Time](1)}
	t.C = t.c
	t.timer = sched.AddTimer(d, func() { sched.PushNoPoint(t.c, sched.Now()) })
	return t
}

func After(d Duration) <-chan Time { return NewTimer(d).C }

func AfterFunc(d Duration, f func()) *Timer {
	if !sched.Active() {
		return &Timer{real: time.AfterFunc(d, f)}
	}
	t := &Timer{f: f}
	t.timer = sched.AddTimer(d, func() { sched.SpawnNoPoint("afterfunc", f) })
	return t
}

func (t *Timer) Stop() bool {
	if t.real != nil {
		return t.real.Stop()
	}
	return t.timer.Stop()
}

func (t *Timer) Reset(d Duration) bool {
	if t.real != nil {
		return t.real.Reset(d)
	}
	active := t.timer.Stop()
	if !sched.Active() {
		return active
	}
	if t.f != nil {
		f := t.f
		t.timer = sched.AddTimer(d, func() { sched.SpawnNoPoint("afterfunc", f) })
	} else {
		t.timer = sched.AddTimer(d, func() { sched.PushNoPoint(t.c, sched.Now()) })
	}
	return active
}
