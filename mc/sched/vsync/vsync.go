// Package vsync replaces package sync in instrumented files (import path swap done by mc/rewrite).
package vsync

import (
	"sync"

	"verif/mc/sched"
)

type (
	Pool   = sync.Pool
	Map    = sync.Map
	Locker = sync.Locker
)

// Mutex: Lock is a blocking visible operation; Unlock is not a scheduling point (the next visible operation of
// the unlocking thread is, which is enough under data-race freedom).
type Mutex struct {
	real sync.Mutex
	held bool
}

func (m *Mutex) Lock() {
	if !sched.Active() {
		if !sched.Aborting() {
			m.real.Lock()
		}
		return
	}
	sched.Block(sched.OpLock, func() bool { return !m.held })
	if sched.Aborting() {
		return
	}
	m.held = true
	sched.LockDepth(1)
}

func (m *Mutex) TryLock() bool {
	if !sched.Active() {
		if sched.Aborting() {
			return false
		}
		return m.real.TryLock()
	}
	sched.Op(sched.OpLock)
	if m.held {
		return false
	}
	m.held = true
	sched.LockDepth(1)
	return true
}

func (m *Mutex) Unlock() {
	if !sched.Active() {
		if !sched.Aborting() {
			m.real.Unlock()
		}
		return
	}
	if !m.held {
		panic("sync: unlock of unlocked mutex")
	}
	m.held = false
	sched.LockDepth(-1)
}

type RWMutex struct {
	real    sync.RWMutex
	writer  bool
	readers int
}

func (m *RWMutex) Lock() {
	if !sched.Active() {
		if !sched.Aborting() {
			m.real.Lock()
		}
		return
	}
	sched.Block(sched.OpLock, func() bool { return !m.writer && m.readers == 0 })
	if sched.Aborting() {
		return
	}
	m.writer = true
	sched.LockDepth(1)
}

func (m *RWMutex) Unlock() {
	if !sched.Active() {
		if !sched.Aborting() {
			m.real.Unlock()
		}
		return
	}
	if !m.writer {
		panic("sync: Unlock of unlocked RWMutex")
	}
	m.writer = false
	sched.LockDepth(-1)
}

func (m *RWMutex) RLock() {
	if !sched.Active() {
		if !sched.Aborting() {
			m.real.RLock()
		}
		return
	}
	sched.Block(sched.OpLock, func() bool { return !m.writer })
	if sched.Aborting() {
		return
	}
	m.readers++
	sched.LockDepth(1)
}

func (m *RWMutex) RUnlock() {
	if !sched.Active() {
		if !sched.Aborting() {
			m.real.RUnlock()
		}
		return
	}
	if m.readers <= 0 {
		panic("sync: RUnlock of unlocked RWMutex")
	}
	m.readers--
	sched.LockDepth(-1)
}

func (m *RWMutex) RLocker() sync.Locker { return rlocker{m} }

type rlocker struct{ m *RWMutex }

func (r rlocker) Lock()   { r.m.RLock() }
func (r rlocker) Unlock() { r.m.RUnlock() }

type WaitGroup struct {
	real sync.WaitGroup
	n    int
}

func (w *WaitGroup) Add(d int) {
	if !sched.Active() {
		if !sched.Aborting() {
			w.real.Add(d)
		}
		return
	}
	sched.Op(sched.OpAtomic)
	w.n += d
	if w.n < 0 {
		panic("sync: negative WaitGroup counter")
	}
}

func (w *WaitGroup) Done() { w.Add(-1) }

func (w *WaitGroup) Wait() {
	if !sched.Active() {
		if !sched.Aborting() {
			w.real.Wait()
		}
		return
	}
	sched.Block(sched.OpWait, func() bool { return w.n == 0 })
}

type Once struct {
	real    sync.Once
	done    bool
	running bool
}

func (o *Once) Do(f func()) {
	if !sched.Active() {
		if !sched.Aborting() {
			o.real.Do(f)
		}
		return
	}
	sched.Block(sched.OpLock, func() bool { return !o.running })
	if sched.Aborting() || o.done {
		return
	}
	o.running = true
	defer func() { o.running, o.done = false, true }()
	f()
}
