package chlex

import (
	"strings"
	"testing"
)

type tk struct {
	k Kind
	s string
}

func sig(sql string) []tk {
	var out []tk
	for _, t := range Tokenize(sql) {
		if t.Kind == Whitespace {
			continue
		}
		out = append(out, tk{t.Kind, t.Text})
	}
	return out
}

func eq(a, b []tk) bool {
	if len(a) != len(b) {
		return false
	}
	for i := range a {
		if a[i] != b[i] {
			return false
		}
	}
	return true
}

func TestTokens(t *testing.T) {
	W, N, S, Q, P, C, E, H := BareWord, Number, StringLiteral, QuotedIdentifier, Punct, Comment, Error, HereDoc
	cases := []struct {
		in   string
		want []tk
	}{
		{"SELECT 1", []tk{{W, "SELECT"}, {N, "1"}}},
		{"a.b", []tk{{W, "a"}, {P, "."}, {W, "b"}}},
		{"x.1.2", []tk{{W, "x"}, {P, "."}, {N, "1"}, {P, "."}, {N, "2"}}},
		{"(1).5", []tk{{P, "("}, {N, "1"}, {P, ")"}, {P, "."}, {N, "5"}}},
		{"x[1].2", []tk{{W, "x"}, {P, "["}, {N, "1"}, {P, "]"}, {P, "."}, {N, "2"}}},
		{"SELECT .5", []tk{{W, "SELECT"}, {P, "."}, {N, "5"}}}, // after a bare word '.' is a qualifier (as in ClickHouse)
		{"1 + .5e1", []tk{{N, "1"}, {P, "+"}, {N, ".5e1"}}},
		{"(.5)", []tk{{P, "("}, {N, ".5"}, {P, ")"}}},
		{"1.5e-3+2", []tk{{N, "1.5e-3"}, {P, "+"}, {N, "2"}}},
		{"1e3", []tk{{N, "1e3"}}},
		{"0x1F 0b101 0xZ", []tk{{N, "0x1F"}, {N, "0b101"}, {W, "0xZ"}}},
		{"0x1p-2", []tk{{N, "0x1p-2"}}},
		{"1_000 1__0", []tk{{N, "1_000"}, {W, "1__0"}}},
		{"1abc", []tk{{W, "1abc"}}},
		{"1.5abc", []tk{{E, "1.5abc"}}},
		{"toFloat64(count(distinct _1index_search.span_id))",
			[]tk{{W, "toFloat64"}, {P, "("}, {W, "count"}, {P, "("}, {W, "distinct"}, {W, "_1index_search"}, {P, "."}, {W, "span_id"}, {P, ")"}, {P, ")"}}},
		{"a->b", []tk{{W, "a"}, {P, "->"}, {W, "b"}}},
		{"a - b", []tk{{W, "a"}, {P, "-"}, {W, "b"}}},
		{"a--b\nc", []tk{{W, "a"}, {C, "--b"}, {W, "c"}}},
		{"a//b\nc", []tk{{W, "a"}, {C, "//b"}, {W, "c"}}},
		{"a/b", []tk{{W, "a"}, {P, "/"}, {W, "b"}}},
		{"a/*x*/b", []tk{{W, "a"}, {C, "/*x*/"}, {W, "b"}}},
		{"a/*x/*y*/z*/b", []tk{{W, "a"}, {C, "/*x/*y*/z*/"}, {W, "b"}}},
		{"a/*x", []tk{{W, "a"}, {E, "/*x"}}},
		{"a/*/b", []tk{{W, "a"}, {E, "/*/b"}}},
		{"a # c\nb", []tk{{W, "a"}, {C, "# c"}, {W, "b"}}},
		{"a #!c\nb", []tk{{W, "a"}, {C, "#!c"}, {W, "b"}}},
		{"a #c", []tk{{W, "a"}, {E, "#"}, {W, "c"}}},
		{"x::Int8", []tk{{W, "x"}, {P, "::"}, {W, "Int8"}}},
		{"a:b", []tk{{W, "a"}, {P, ":"}, {W, "b"}}},
		{"a==b a=b a!=b a<>b a<=b a>=b a<b a>b a<=>b",
			[]tk{{W, "a"}, {P, "=="}, {W, "b"}, {W, "a"}, {P, "="}, {W, "b"}, {W, "a"}, {P, "!="}, {W, "b"}, {W, "a"}, {P, "<>"}, {W, "b"},
				{W, "a"}, {P, "<="}, {W, "b"}, {W, "a"}, {P, ">="}, {W, "b"}, {W, "a"}, {P, "<"}, {W, "b"}, {W, "a"}, {P, ">"}, {W, "b"},
				{W, "a"}, {P, "<=>"}, {W, "b"}}},
		{"a!b", []tk{{W, "a"}, {E, "!"}, {W, "b"}}},
		{"a||b|c", []tk{{W, "a"}, {P, "||"}, {W, "b"}, {P, "|"}, {W, "c"}}},
		{"@@x @y", []tk{{P, "@@"}, {W, "x"}, {P, "@"}, {W, "y"}}},
		{"a;b", []tk{{W, "a"}, {P, ";"}, {W, "b"}}},
		{`a\Gb\c`, []tk{{W, "a"}, {P, `\G`}, {W, "b"}, {E, `\`}, {W, "c"}}},
		{"{a:UInt8}", []tk{{P, "{"}, {W, "a"}, {P, ":"}, {W, "UInt8"}, {P, "}"}}},
		{"x % 5 ^ ?", []tk{{W, "x"}, {P, "%"}, {N, "5"}, {P, "^"}, {P, "?"}}},
		// strings
		{`'abc'`, []tk{{S, `'abc'`}}},
		{`'a''b'`, []tk{{S, `'a''b'`}}},
		{`'a\'b'`, []tk{{S, `'a\'b'`}}},
		{`'a\\'b'`, []tk{{S, `'a\\'`}, {W, "b"}, {E, `'`}}},
		{`'a\\\'b'`, []tk{{S, `'a\\\'b'`}}},
		{`'abc`, []tk{{E, `'abc`}}},
		{`'abc\`, []tk{{E, `'abc\`}}},
		{`'abc\'`, []tk{{E, `'abc\'`}}},
		{`'' ''''`, []tk{{S, `''`}, {S, `''''`}}},
		{"'a\nb'", []tk{{S, "'a\nb'"}}},
		{"'--' '/*' '#'", []tk{{S, "'--'"}, {S, "'/*'"}, {S, "'#'"}}},
		{"'%it\\'s\\%'", []tk{{S, "'%it\\'s\\%'"}}},
		// identifiers
		{"`a b`.\"c\"\"d\"", []tk{{Q, "`a b`"}, {P, "."}, {Q, `"c""d"`}}},
		{"`a\\`b`", []tk{{Q, "`a\\`b`"}}},
		{"`ab", []tk{{E, "`ab"}}},
		{`"ab`, []tk{{E, `"ab`}}},
		// heredoc and dollars
		{"$$a'b$$", []tk{{H, "$$a'b$$"}}},
		{"$t$a$$b$t$ x", []tk{{H, "$t$a$$b$t$"}, {W, "x"}}},
		{"$$a", []tk{{P, "$"}, {W, "$a"}}},
		{"a$b $1", []tk{{W, "a$b"}, {W, "$1"}}},
		{"$ ", []tk{{P, "$"}}},
		// non ASCII
		{"a\xc3\xa9", []tk{{W, "a"}, {E, "\xc3"}, {E, "\xa9"}}},
		{"a\xff", []tk{{W, "a"}, {E, "\xff"}}},
		{"a\xc2\xa0b", []tk{{W, "a"}, {W, "b"}}},
		{"a\xe2\x88\x92b", []tk{{W, "a"}, {P, "\xe2\x88\x92"}, {W, "b"}}},
		{"\xe2\x80\x98it's\xe2\x80\x99 x", []tk{{S, "\xe2\x80\x98it's\xe2\x80\x99"}, {W, "x"}}},
		{"\xe2\x80\x9ccol\xe2\x80\x9d", []tk{{Q, "\xe2\x80\x9ccol\xe2\x80\x9d"}}},
		{"a\x00b", []tk{{W, "a"}, {E, "\x00"}, {W, "b"}}},
		// from the repository
		{"like(samples.string, '%x%')", []tk{{W, "like"}, {P, "("}, {W, "samples"}, {P, "."}, {W, "string"}, {P, ","}, {S, "'%x%'"}, {P, ")"}}},
		{"labels['a']", []tk{{W, "labels"}, {P, "["}, {S, "'a'"}, {P, "]"}}},
		{"([`a`],[1])::Map(String, String)", []tk{{P, "("}, {P, "["}, {Q, "`a`"}, {P, "]"}, {P, ","}, {P, "["}, {N, "1"}, {P, "]"}, {P, ")"}, {P, "::"}, {W, "Map"}, {P, "("}, {W, "String"}, {P, ","}, {W, "String"}, {P, ")"}}},
		{"(x,y) -> x != '' AND y != ''", []tk{{P, "("}, {W, "x"}, {P, ","}, {W, "y"}, {P, ")"}, {P, "->"}, {W, "x"}, {P, "!="}, {S, "''"}, {W, "AND"}, {W, "y"}, {P, "!="}, {S, "''"}}},
		{"groupArray(100)(span_id)", []tk{{W, "groupArray"}, {P, "("}, {N, "100"}, {P, ")"}, {P, "("}, {W, "span_id"}, {P, ")"}}},
		{"timestamp_ns % 15000000000", []tk{{W, "timestamp_ns"}, {P, "%"}, {N, "15000000000"}}},
	}
	for _, c := range cases {
		got := sig(c.in)
		if !eq(got, c.want) {
			t.Errorf("Tokenize(%q)\n got  %v\n want %v", c.in, got, c.want)
		}
	}
}

func TestWhitespaceAndCoverage(t *testing.T) {
	in := "SELECT \t\n a ,\r\n'b' -- c\n/* d */ e"
	toks := Tokenize(in)
	pos := 0
	var sb strings.Builder
	for _, tok := range toks {
		if tok.Pos != pos {
			t.Fatalf("gap before %v (expected pos %d)", tok, pos)
		}
		pos += len(tok.Text)
		sb.WriteString(tok.Text)
	}
	if sb.String() != in {
		t.Fatalf("tokens do not cover the input")
	}
	n := 0
	for _, tok := range toks {
		if tok.Kind == Comment {
			n++
		}
	}
	if n != 2 {
		t.Fatalf("want 2 comments, got %d: %v", n, toks)
	}
}

// every byte string up to length 5 over an alphabet of lexically interesting bytes: tokens are non-empty, contiguous
// and cover the input (exhaustive, 11^5+... = 177k strings).
func TestCoverageExhaustive(t *testing.T) {
	alpha := []string{"'", "\\", "-", "/", "*", "#", "$", "a", "1", ".", "`", " ", "\n", "\"", "\xe2", "_", "e"}
	var rec func(prefix string, depth int)
	count := 0
	rec = func(prefix string, depth int) {
		toks := Tokenize(prefix)
		pos := 0
		for _, tok := range toks {
			if tok.Pos != pos || len(tok.Text) == 0 {
				t.Fatalf("%q: bad token %v at expected pos %d", prefix, tok, pos)
			}
			pos += len(tok.Text)
			if tok.Kind == StringLiteral {
				if _, err := DecodeString(tok); err != nil {
					// the only undecodable literals over this alphabet would need \x or a trailing backslash
					t.Fatalf("%q: literal %v does not decode: %v", prefix, tok, err)
				}
			}
		}
		if pos != len(prefix) {
			t.Fatalf("%q: tokens cover %d of %d bytes", prefix, pos, len(prefix))
		}
		count++
		if depth == 0 {
			return
		}
		for _, a := range alpha {
			rec(prefix+a, depth-1)
		}
	}
	depth := 5
	if testing.Short() {
		depth = 4
	}
	rec("", depth)
	t.Logf("%d strings", count)
}

func TestDecodeString(t *testing.T) {
	cases := []struct {
		lit, want string
		bad       bool
	}{
		{`'abc'`, "abc", false},
		{`''`, "", false},
		{`''''`, "'", false},
		{`'a''b'`, "a'b", false},
		{`'a\'b'`, "a'b", false},
		{`'a\\b'`, `a\b`, false},
		{`'a\"b'`, `a"b`, false},
		{"'a\\`b'", "a`b", false},
		{`'a\/b'`, "a/b", false},
		{`'a\=b'`, "a=b", false},
		{`'\b\f\r\n\t\0\a\v\e'`, "\b\f\r\n\t\x00\a\v\x1b", false},
		{`'\x41\x1a\xff\x00'`, "A\x1a\xff\x00", false},
		{`'\xZZ'`, "", true},
		{`'\x4'`, "", true},
		{`'a\Nb'`, "ab", false},
		{`'\%\_\d\.\w\Z\('`, `\%\_\d\.\w\Z\(`, false}, // unknown escapes keep the backslash
		{"'\\\n'", "\n", false},                       // backslash before a raw control byte is dropped
		{"'\\\x7f'", "\\\x7f", false},
		{"'a\nb\x00c'", "a\nb\x00c", false},
		{"'\xff\xfe'", "\xff\xfe", false},
		{"'\\\xc3\xa9'", "\\\xc3\xa9", false},
		{`'%it\'s\%'`, `%it's\%`, false},
		{`'%a\\\\b%'`, `%a\\b%`, false},
	}
	for _, c := range cases {
		toks := Tokenize(c.lit)
		if len(toks) != 1 || toks[0].Kind != StringLiteral {
			t.Errorf("%q is not one string literal: %v", c.lit, toks)
			continue
		}
		got, err := DecodeString(toks[0])
		if c.bad {
			if err == nil {
				t.Errorf("DecodeString(%q) = %q, want error", c.lit, got)
			}
			continue
		}
		if err != nil || got != c.want {
			t.Errorf("DecodeString(%q) = %q, %v; want %q", c.lit, got, err, c.want)
		}
	}
	// heredoc and unicode quotes: no escapes
	for lit, want := range map[string]string{
		"$$a\\'b$$":                     `a\'b`,
		"$x$a$$b$x$":                    "a$$b",
		"\xe2\x80\x98a\\nb\xe2\x80\x99": `a\nb`,
	} {
		toks := Tokenize(lit)
		if len(toks) != 1 || !toks[0].IsString() && toks[0].Kind != StringLiteral {
			t.Errorf("%q is not one literal: %v", lit, toks)
			continue
		}
		got, err := DecodeString(toks[0])
		if err != nil || got != want {
			t.Errorf("DecodeString(%q) = %q, %v; want %q", lit, got, err, want)
		}
	}
}

func TestDecodeIdentifier(t *testing.T) {
	for lit, want := range map[string]string{
		"`a b`":    "a b",
		"`a``b`":   "a`b",
		"`a\\`b`":  "a`b",
		`"a""b"`:   `a"b`,
		`"a\"b"`:   `a"b`,
		`"a\\b"`:   `a\b`,
		"abc":      "abc",
		"`a\\nb`":  "a\nb",
		"`a\\%b`":  `a\%b`,
		"`qryn`":   "qryn",
		"`a'b`":    "a'b",
		"`a\\'b`":  "a'b",
		"`a\\x41`": "aA",
	} {
		toks := Tokenize(lit)
		if len(toks) != 1 {
			t.Errorf("%q: %v", lit, toks)
			continue
		}
		got, err := DecodeIdentifier(toks[0])
		if err != nil || got != want {
			t.Errorf("DecodeIdentifier(%q) = %q, %v; want %q", lit, got, err, want)
		}
	}
}

// QuoteString / DecodeString round trip, and the literal is exactly one token even when followed by more SQL:
// exhaustive over all byte strings of length <= 4 over a hostile alphabet.
func TestRoundTripExhaustive(t *testing.T) {
	alpha := []string{"'", "\\", "\x00", "\n", "-", "/", "*", "#", ";", "%", "_", "$", "`", "\"", "x", "\xff", "\xc3\xa9", "n", "N", "\r"}
	var rec func(v string, depth int)
	n := 0
	rec = func(v string, depth int) {
		lit := QuoteString(v)
		sql := "f(" + lit + ") AND 1"
		toks := Tokenize(sql)
		var sigs []Token
		for _, tok := range toks {
			if tok.Significant() {
				sigs = append(sigs, tok)
			}
		}
		if len(sigs) != 6 || sigs[2].Kind != StringLiteral || sigs[2].Text != lit || sigs[3].Text != ")" {
			t.Fatalf("value %q: literal %q is not one token: %v", v, lit, sigs)
		}
		got, err := DecodeString(sigs[2])
		if err != nil || got != v {
			t.Fatalf("value %q: literal %q decodes to %q, %v", v, lit, got, err)
		}
		n++
		if depth == 0 {
			return
		}
		for _, a := range alpha {
			rec(v+a, depth-1)
		}
	}
	depth := 4
	if testing.Short() {
		depth = 3
	}
	rec("", depth)
	t.Logf("%d values", n)
}

func TestLike(t *testing.T) {
	A, O := LikeAtom{Kind: LikeAny}, LikeAtom{Kind: LikeOne}
	L := func(b byte) LikeAtom { return LikeAtom{Kind: LikeLiteral, Byte: b} }
	cases := []struct {
		p    string
		want []LikeAtom
		bad  bool
	}{
		{`%x%`, []LikeAtom{A, L('x'), A}, false},
		{`a_b`, []LikeAtom{L('a'), O, L('b')}, false},
		{`a\_b\%`, []LikeAtom{L('a'), L('_'), L('b'), L('%')}, false},
		{`a\\b`, []LikeAtom{L('a'), L('\\'), L('b')}, false},
		{`a\bc`, []LikeAtom{L('a'), L('\\'), L('b'), L('c')}, false},
		{`%it's\%`, []LikeAtom{A, L('i'), L('t'), L('\''), L('s'), L('%')}, false},
		{`%a\`, nil, true},
		{`%\\%`, []LikeAtom{A, L('\\'), A}, false},
		{`%\%`, []LikeAtom{A, L('%')}, false},
	}
	for _, c := range cases {
		got, err := ParseLike(c.p)
		if c.bad {
			if err == nil {
				t.Errorf("ParseLike(%q): want error", c.p)
			}
			continue
		}
		if err != nil || !LikeEqual(got, c.want) {
			t.Errorf("ParseLike(%q) = %s, %v; want %s", c.p, FormatLike(got), err, FormatLike(c.want))
		}
	}
	if !LikeEqual(LikeContains("a%"), []LikeAtom{A, L('a'), L('%'), A}) {
		t.Errorf("LikeContains")
	}
}
