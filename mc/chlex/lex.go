// Package chlex is a ClickHouse-compatible SQL *tokenizer* with string-literal / quoted-identifier decoding.
//
// It is a line-by-line transcription (from memory of the C++ sources, kept boring) of
//
//	src/Parsers/Lexer.cpp            Lexer::nextTokenImpl, quotedString<>, isNumberSeparator
//	src/IO/ReadHelpers.cpp           readAnyQuotedStringInto<quote, enable_sql_style_quoting=true>,
//	                                 parseComplexEscapeSequence, parseEscapeSequence (ReadHelpers.h)
//	src/Parsers/ExpressionElementParsers.cpp  ParserStringLiteral (heredoc: no escapes)
//	src/Common/UTF8Helpers / Parsers/Lexer skipWhitespacesUTF8
//
// The tokenizer never fails: every byte of the input belongs to exactly one token; malformed input yields tokens
// of Kind Error (with an explanation), exactly where ClickHouse's lexer yields one of its Error* token types.
// Nothing here knows about qryn; the package is used by check C10 (and can serve a later SQL parser).
package chlex

import (
	"fmt"
	"strings"
)

type Kind int

const (
	Whitespace Kind = iota
	Comment
	BareWord         // keywords, identifiers, function names (ClickHouse's lexer does not separate them)
	Number           // 1, 1.5, .5, 1e3, 0x1F, 0b101, 1_000
	StringLiteral    // '...'   (also ‘...’ unicode-quoted, which ClickHouse accepts)
	HereDoc          // $tag$...$tag$  (a string literal without escapes)
	QuotedIdentifier // `...` or "..." (also “...”)
	Punct            // every operator / bracket / delimiter; the text tells which
	Error            // anything ClickHouse's lexer flags as Error*; Err says why
)

func (k Kind) String() string {
	switch k {
	case Whitespace:
		return "Whitespace"
	case Comment:
		return "Comment"
	case BareWord:
		return "BareWord"
	case Number:
		return "Number"
	case StringLiteral:
		return "StringLiteral"
	case HereDoc:
		return "HereDoc"
	case QuotedIdentifier:
		return "QuotedIdentifier"
	case Punct:
		return "Punct"
	case Error:
		return "Error"
	}
	return fmt.Sprintf("Kind(%d)", int(k))
}

type Token struct {
	Kind Kind
	Text string // raw bytes of the token
	Pos  int    // byte offset in the input
	Err  string // for Kind == Error
}

func (t Token) String() string {
	if t.Kind == Error {
		return fmt.Sprintf("%s(%q: %s)@%d", t.Kind, t.Text, t.Err, t.Pos)
	}
	return fmt.Sprintf("%s(%q)@%d", t.Kind, t.Text, t.Pos)
}

// IsString reports whether the token is a string literal of any spelling.
func (t Token) IsString() bool { return t.Kind == StringLiteral || t.Kind == HereDoc }

// Significant reports whether the token is neither whitespace nor a comment.
func (t Token) Significant() bool { return t.Kind != Whitespace && t.Kind != Comment }

func isWhitespaceASCII(c byte) bool {
	return c == ' ' || c == '\t' || c == '\n' || c == '\r' || c == '\f' || c == '\v'
}
func isNumericASCII(c byte) bool { return c >= '0' && c <= '9' }
func isHexDigit(c byte) bool {
	return isNumericASCII(c) || (c >= 'a' && c <= 'f') || (c >= 'A' && c <= 'F')
}
func isAlphaASCII(c byte) bool { return (c >= 'a' && c <= 'z') || (c >= 'A' && c <= 'Z') }
func isWordCharASCII(c byte) bool {
	return isAlphaASCII(c) || isNumericASCII(c) || c == '_'
}
func isControlASCII(c byte) bool { return c <= 31 }

// isNumberSeparator: '_' between two digits (1_000), never at the start of a digit block.
func isNumberSeparator(startOfBlock, hex bool, s string, pos int) bool {
	if s[pos] != '_' {
		return false
	}
	if startOfBlock {
		return false
	}
	if pos+1 >= len(s) {
		return false
	}
	n := s[pos+1]
	if hex {
		return isHexDigit(n)
	}
	return isNumericASCII(n)
}

// skipWhitespacesUTF8 skips the Unicode white space code points ClickHouse tolerates between tokens:
// 0085 00A0 180E 2000..200F 2028 2029 202F 205F 2060 3000 FEFF.
func skipWhitespacesUTF8(s string, pos int) int {
	for pos < len(s) {
		c := s[pos]
		switch {
		case c == 0xC2 && pos+1 < len(s) && (s[pos+1] == 0x85 || s[pos+1] == 0xA0):
			pos += 2
		case c == 0xE1 && pos+2 < len(s) && s[pos+1] == 0xA0 && s[pos+2] == 0x8E:
			pos += 3
		case c == 0xE2 && pos+2 < len(s) && s[pos+1] == 0x80 &&
			((s[pos+2] >= 0x80 && s[pos+2] <= 0x8F) || s[pos+2] == 0xA8 || s[pos+2] == 0xA9 || s[pos+2] == 0xAF):
			pos += 3
		case c == 0xE2 && pos+2 < len(s) && s[pos+1] == 0x81 && (s[pos+2] == 0x9F || s[pos+2] == 0xA0):
			pos += 3
		case c == 0xE3 && pos+2 < len(s) && s[pos+1] == 0x80 && s[pos+2] == 0x80:
			pos += 3
		case c == 0xEF && pos+2 < len(s) && s[pos+1] == 0xBB && s[pos+2] == 0xBF:
			pos += 3
		default:
			return pos
		}
	}
	return pos
}

// quoted scans a '...', "..." or `...` token starting at s[pos] (which is the quote).  A backslash skips the next
// byte; a doubled quote continues the token.  ok=false: not closed (token extends to the end of the input).
func quoted(s string, pos int, quote byte) (end int, ok bool) {
	pos++
	for {
		for pos < len(s) && s[pos] != quote && s[pos] != '\\' {
			pos++
		}
		if pos >= len(s) {
			return len(s), false
		}
		if s[pos] == quote {
			pos++
			if pos < len(s) && s[pos] == quote {
				pos++
				continue
			}
			return pos, true
		}
		// backslash
		pos++
		if pos >= len(s) {
			return len(s), false
		}
		pos++
	}
}

// Tokenize splits sql into tokens covering every byte.
func Tokenize(sql string) []Token {
	var out []Token
	pos := 0
	prevSig := Token{Kind: -1} // previous significant token
	emit := func(k Kind, begin, end int, err string) {
		t := Token{Kind: k, Text: sql[begin:end], Pos: begin, Err: err}
		out = append(out, t)
		if t.Significant() {
			prevSig = t
		}
	}
	prevIsDot := func() bool { return prevSig.Kind == Punct && prevSig.Text == "." }
	n := len(sql)
	for pos < n {
		begin := pos
		c := sql[pos]
		untilEOL := func() {
			for pos < n && sql[pos] != '\n' {
				pos++
			}
			emit(Comment, begin, pos, "")
		}
		switch {
		case isWhitespaceASCII(c):
			pos++
			for pos < n && isWhitespaceASCII(sql[pos]) {
				pos++
			}
			emit(Whitespace, begin, pos, "")

		case isNumericASCII(c):
			if prevIsDot() {
				// chained tuple access x.1.1: only a simple integer
				pos++
				for pos < n && (isNumericASCII(sql[pos]) || isNumberSeparator(false, false, sql, pos)) {
					pos++
				}
			} else {
				startOfBlock := false
				hex := false
				if pos+2 < n && c == '0' && (sql[pos+1] == 'x' || sql[pos+1] == 'b' || sql[pos+1] == 'X' || sql[pos+1] == 'B') {
					valid := false
					if sql[pos+1] == 'x' || sql[pos+1] == 'X' {
						if isHexDigit(sql[pos+2]) {
							hex = true
							valid = true
						}
					} else if sql[pos+2] == '0' || sql[pos+2] == '1' {
						valid = true
					}
					if valid {
						pos += 2
						startOfBlock = true
					} else {
						pos++
					}
				} else {
					pos++
				}
				digit := func(b byte) bool {
					if hex {
						return isHexDigit(b)
					}
					return isNumericASCII(b)
				}
				for pos < n && (digit(sql[pos]) || isNumberSeparator(startOfBlock, hex, sql, pos)) {
					pos++
					startOfBlock = false
				}
				if pos < n && sql[pos] == '.' {
					startOfBlock = true
					pos++
					for pos < n && (digit(sql[pos]) || isNumberSeparator(startOfBlock, hex, sql, pos)) {
						pos++
						startOfBlock = false
					}
				}
				if pos+1 < n && ((hex && (sql[pos] == 'p' || sql[pos] == 'P')) || (!hex && (sql[pos] == 'e' || sql[pos] == 'E'))) {
					startOfBlock = true
					pos++
					if pos+1 < n && (sql[pos] == '-' || sql[pos] == '+') {
						pos++
					}
					for pos < n && (isNumericASCII(sql[pos]) || isNumberSeparator(startOfBlock, false, sql, pos)) {
						pos++
						startOfBlock = false
					}
				}
			}
			if pos < n && isWordCharASCII(sql[pos]) {
				// 1identifier_name is a bare word; anything else glued to a number is an error
				pos++
				for pos < n && isWordCharASCII(sql[pos]) {
					pos++
				}
				bad := false
				for i := begin; i < pos; i++ {
					if !isWordCharASCII(sql[i]) && sql[i] != '$' {
						bad = true
						break
					}
				}
				if bad {
					emit(Error, begin, pos, "wrong number")
				} else {
					emit(BareWord, begin, pos, "")
				}
			} else {
				emit(Number, begin, pos, "")
			}

		case c == '\'':
			end, ok := quoted(sql, pos, '\'')
			pos = end
			if ok {
				emit(StringLiteral, begin, pos, "")
			} else {
				emit(Error, begin, pos, "single quote is not closed")
			}
		case c == '"':
			end, ok := quoted(sql, pos, '"')
			pos = end
			if ok {
				emit(QuotedIdentifier, begin, pos, "")
			} else {
				emit(Error, begin, pos, "double quote is not closed")
			}
		case c == '`':
			end, ok := quoted(sql, pos, '`')
			pos = end
			if ok {
				emit(QuotedIdentifier, begin, pos, "")
			} else {
				emit(Error, begin, pos, "back quote is not closed")
			}

		case c == '(' || c == ')' || c == '[' || c == ']' || c == '{' || c == '}' || c == ',' || c == ';' ||
			c == '+' || c == '*' || c == '%' || c == '?' || c == '^':
			pos++
			emit(Punct, begin, pos, "")

		case c == '.':
			// qualifier, tuple access, or start of a floating point number
			nextDigit := pos+1 < n && isNumericASCII(sql[pos+1])
			afterOperand := prevSig.Kind == BareWord || prevSig.Kind == QuotedIdentifier || prevSig.Kind == Number ||
				(prevSig.Kind == Punct && (prevSig.Text == ")" || prevSig.Text == "]"))
			if pos > 0 && (!nextDigit || afterOperand) {
				pos++
				emit(Punct, begin, pos, "")
				break
			}
			pos++
			for pos < n && (isNumericASCII(sql[pos]) || isNumberSeparator(false, false, sql, pos)) {
				pos++
			}
			if pos+1 < n && (sql[pos] == 'e' || sql[pos] == 'E') {
				pos++
				if pos+1 < n && (sql[pos] == '-' || sql[pos] == '+') {
					pos++
				}
				for pos < n && isNumericASCII(sql[pos]) {
					pos++
				}
			}
			if pos == begin+1 {
				// a lone '.' at the very beginning of the input
				emit(Punct, begin, pos, "")
			} else {
				emit(Number, begin, pos, "")
			}

		case c == '-':
			pos++
			if pos < n && sql[pos] == '>' {
				pos++
				emit(Punct, begin, pos, "")
			} else if pos < n && sql[pos] == '-' {
				pos++
				untilEOL()
			} else {
				emit(Punct, begin, pos, "")
			}

		case c == '/':
			pos++
			if pos < n && sql[pos] == '/' {
				pos++
				untilEOL()
			} else if pos < n && sql[pos] == '*' {
				pos++
				level := 1
				closed := false
				for pos+2 <= n {
					if sql[pos] == '/' && sql[pos+1] == '*' {
						pos += 2
						level++
					} else if sql[pos] == '*' && sql[pos+1] == '/' {
						pos += 2
						level--
						if level == 0 {
							closed = true
							break
						}
					} else {
						pos++
					}
				}
				if closed {
					emit(Comment, begin, pos, "")
				} else {
					pos = n
					emit(Error, begin, pos, "multiline comment is not closed")
				}
			} else {
				emit(Punct, begin, pos, "")
			}

		case c == '#':
			pos++
			if pos < n && (sql[pos] == ' ' || sql[pos] == '!') {
				untilEOL()
			} else {
				emit(Error, begin, pos, "'#' not followed by a space")
			}

		case c == '=':
			pos++
			if pos < n && sql[pos] == '=' {
				pos++
			}
			emit(Punct, begin, pos, "")
		case c == '!':
			pos++
			if pos < n && sql[pos] == '=' {
				pos++
				emit(Punct, begin, pos, "")
			} else {
				emit(Error, begin, pos, "single exclamation mark")
			}
		case c == '<':
			pos++
			if pos+1 < n && sql[pos] == '=' && sql[pos+1] == '>' {
				pos += 2
			} else if pos < n && (sql[pos] == '=' || sql[pos] == '>') {
				pos++
			}
			emit(Punct, begin, pos, "")
		case c == '>':
			pos++
			if pos < n && sql[pos] == '=' {
				pos++
			}
			emit(Punct, begin, pos, "")
		case c == ':':
			pos++
			if pos < n && sql[pos] == ':' {
				pos++
			}
			emit(Punct, begin, pos, "")
		case c == '|':
			pos++
			if pos < n && sql[pos] == '|' {
				pos++
			}
			emit(Punct, begin, pos, "")
		case c == '@':
			pos++
			if pos < n && sql[pos] == '@' {
				pos++
			}
			emit(Punct, begin, pos, "")
		case c == '\\':
			pos++
			if pos < n && sql[pos] == 'G' {
				pos++
				emit(Punct, begin, pos, "")
			} else {
				emit(Error, begin, pos, "stray backslash")
			}

		default:
			if c == 0xE2 {
				// mathematical minus U+2212
				if pos+3 <= n && sql[pos+1] == 0x88 && sql[pos+2] == 0x92 {
					pos += 3
					emit(Punct, begin, pos, "")
					break
				}
				// unicode quotes ‘...’ (string literal) and “...” (identifier), no escapes inside
				if pos+5 < n && sql[pos+1] == 0x80 && (sql[pos+2] == 0x98 || sql[pos+2] == 0x9C) {
					closing := string([]byte{0xE2, 0x80, sql[pos+2] + 1})
					kind := StringLiteral
					if sql[pos+2] == 0x9C {
						kind = QuotedIdentifier
					}
					i := strings.Index(sql[pos+3:], closing)
					if i < 0 {
						pos = n
						emit(Error, begin, pos, "unicode quote is not closed")
					} else {
						pos = pos + 3 + i + 3
						emit(kind, begin, pos, "")
					}
					break
				}
			}
			if c == '$' {
				// heredoc $tag$ ... $tag$
				rest := sql[pos:]
				if e := strings.IndexByte(rest[1:], '$'); e >= 0 {
					size := e + 2
					tag := rest[:size]
					if f := strings.Index(rest[size:], tag); f >= 0 {
						pos += size + f + size
						emit(HereDoc, begin, pos, "")
						break
					}
				}
				if pos+1 == n || !isWordCharASCII(sql[pos+1]) {
					pos++
					emit(Punct, begin, pos, "") // standalone dollar sign
					break
				}
			}
			if isWordCharASCII(c) || c == '$' {
				pos++
				for pos < n && (isWordCharASCII(sql[pos]) || sql[pos] == '$') {
					pos++
				}
				emit(BareWord, begin, pos, "")
			} else {
				p := skipWhitespacesUTF8(sql, pos)
				if p > pos {
					pos = p
					emit(Whitespace, begin, pos, "")
				} else {
					pos++
					emit(Error, begin, pos, "unrecognized byte")
				}
			}
		}
	}
	return out
}

// parseEscapeSequence is ReadHelpers.h parseEscapeSequence.
func parseEscapeSequence(c byte) byte {
	switch c {
	case 'a':
		return '\a'
	case 'b':
		return '\b'
	case 'e':
		return 0x1B
	case 'f':
		return '\f'
	case 'n':
		return '\n'
	case 'r':
		return '\r'
	case 't':
		return '\t'
	case 'v':
		return '\v'
	case '0':
		return 0
	}
	return c
}

func unhex(c byte) (byte, bool) {
	switch {
	case c >= '0' && c <= '9':
		return c - '0', true
	case c >= 'a' && c <= 'f':
		return c - 'a' + 10, true
	case c >= 'A' && c <= 'F':
		return c - 'A' + 10, true
	}
	return 0, false
}

// DecodeQuoted decodes the body of a quoted token the way readAnyQuotedStringInto<quote, sql_style=true> does:
// backslash escapes per parseComplexEscapeSequence, doubled quote -> one quote.  text must include both quotes.
//
// Escape rules: \xHH -> byte; \N -> nothing; \a \b \e \f \n \r \t \v \0 -> control byte; a backslash before
// \ ' " ` / = or before a raw control byte is dropped; any other escape keeps the backslash AND the byte
// ("for convenience using LIKE and regular expressions": \% \_ \d \. stay as written).
func DecodeQuoted(text string, quote byte) (string, error) {
	if len(text) < 2 || text[0] != quote || text[len(text)-1] != quote {
		return "", fmt.Errorf("not a %c-quoted token: %q", quote, text)
	}
	var b strings.Builder
	i := 1
	end := len(text) - 1 // index of the closing quote
	for i < end {
		c := text[i]
		switch c {
		case quote:
			// inside the token a quote can only be the first half of a doubled quote
			if i+1 < end && text[i+1] == quote {
				b.WriteByte(quote)
				i += 2
				continue
			}
			return "", fmt.Errorf("stray quote inside %q at %d", text, i)
		case '\\':
			i++
			if i >= end {
				return "", fmt.Errorf("cannot parse escape sequence at the end of %q", text)
			}
			e := text[i]
			switch e {
			case 'x':
				// ClickHouse reads the next two bytes blindly (unhex2); when they are not both hex digits inside
				// the literal the result is garbage or a parse error, so it is reported as an error here.
				if i+2 >= end {
					return "", fmt.Errorf("truncated \\x escape in %q", text)
				}
				h, ok1 := unhex(text[i+1])
				l, ok2 := unhex(text[i+2])
				if !ok1 || !ok2 {
					return "", fmt.Errorf("\\x escape without two hex digits in %q", text)
				}
				b.WriteByte(h<<4 | l)
				i += 3
			case 'N':
				i++
			default:
				d := parseEscapeSequence(e)
				if d != '\\' && d != '\'' && d != '"' && d != '`' && d != '/' && d != '=' && !isControlASCII(d) {
					b.WriteByte('\\')
				}
				b.WriteByte(d)
				i++
			}
		default:
			b.WriteByte(c)
			i++
		}
	}
	return b.String(), nil
}

// DecodeString returns the value of a StringLiteral or HereDoc token.
func DecodeString(t Token) (string, error) {
	switch t.Kind {
	case StringLiteral:
		if strings.HasPrefix(t.Text, "\xE2\x80\x98") {
			if len(t.Text) < 6 {
				return "", fmt.Errorf("short unicode-quoted literal")
			}
			return t.Text[3 : len(t.Text)-3], nil
		}
		return DecodeQuoted(t.Text, '\'')
	case HereDoc:
		e := strings.IndexByte(t.Text[1:], '$')
		if e < 0 {
			return "", fmt.Errorf("malformed heredoc")
		}
		size := e + 2
		if len(t.Text) < 2*size {
			return "", fmt.Errorf("malformed heredoc")
		}
		return t.Text[size : len(t.Text)-size], nil
	}
	return "", fmt.Errorf("token %s is not a string literal", t)
}

// DecodeIdentifier returns the name spelled by a QuotedIdentifier or BareWord token.
func DecodeIdentifier(t Token) (string, error) {
	switch t.Kind {
	case BareWord:
		return t.Text, nil
	case QuotedIdentifier:
		if strings.HasPrefix(t.Text, "\xE2\x80\x9C") {
			if len(t.Text) < 6 {
				return "", fmt.Errorf("short unicode-quoted identifier")
			}
			return t.Text[3 : len(t.Text)-3], nil
		}
		return DecodeQuoted(t.Text, t.Text[0])
	}
	return "", fmt.Errorf("token %s is not an identifier", t)
}

// QuoteString renders v as a ClickHouse string literal that DecodeString maps back to v (used by tests and by
// harnesses that need a known-good encoder; it is NOT the repository's encoder).
func QuoteString(v string) string {
	var b strings.Builder
	b.WriteByte('\'')
	for i := 0; i < len(v); i++ {
		switch c := v[i]; c {
		case '\\':
			b.WriteString(`\\`)
		case '\'':
			b.WriteString(`\'`)
		default:
			b.WriteByte(c)
		}
	}
	b.WriteByte('\'')
	return b.String()
}

// ---- LIKE patterns ---------------------------------------------------------------------------------------------

// LikeAtomKind is one element of a LIKE pattern as ClickHouse's likePatternToRegexp reads it.
type LikeAtomKind int

const (
	LikeLiteral LikeAtomKind = iota // exactly this byte
	LikeAny                         // %  any run of bytes
	LikeOne                         // _  exactly one character
)

type LikeAtom struct {
	Kind LikeAtomKind
	Byte byte
}

// ParseLike reads a LIKE pattern with ClickHouse's rules: % and _ are wildcards; \% \_ \\ are the literal
// characters; a backslash before any other byte is a literal backslash (the byte is then read normally);
// a backslash at the very end is an error (CANNOT_PARSE_ESCAPE_SEQUENCE).
func ParseLike(p string) ([]LikeAtom, error) {
	var out []LikeAtom
	for i := 0; i < len(p); i++ {
		switch c := p[i]; c {
		case '%':
			out = append(out, LikeAtom{Kind: LikeAny})
		case '_':
			out = append(out, LikeAtom{Kind: LikeOne})
		case '\\':
			if i+1 == len(p) {
				return out, fmt.Errorf("invalid escape sequence at the end of LIKE pattern %q", p)
			}
			switch p[i+1] {
			case '%', '_', '\\':
				out = append(out, LikeAtom{Kind: LikeLiteral, Byte: p[i+1]})
				i++
			default:
				out = append(out, LikeAtom{Kind: LikeLiteral, Byte: '\\'})
			}
		default:
			out = append(out, LikeAtom{Kind: LikeLiteral, Byte: c})
		}
	}
	return out, nil
}

// LikeContains is the atom sequence of "contains the byte string v": % v %.
func LikeContains(v string) []LikeAtom {
	out := make([]LikeAtom, 0, len(v)+2)
	out = append(out, LikeAtom{Kind: LikeAny})
	for i := 0; i < len(v); i++ {
		out = append(out, LikeAtom{Kind: LikeLiteral, Byte: v[i]})
	}
	return append(out, LikeAtom{Kind: LikeAny})
}

func LikeEqual(a, b []LikeAtom) bool {
	if len(a) != len(b) {
		return false
	}
	for i := range a {
		if a[i] != b[i] {
			return false
		}
	}
	return true
}

// FormatLike prints an atom sequence for messages.
func FormatLike(a []LikeAtom) string {
	var b strings.Builder
	for _, x := range a {
		switch x.Kind {
		case LikeAny:
			b.WriteString("<%>")
		case LikeOne:
			b.WriteString("<_>")
		default:
			fmt.Fprintf(&b, "%s", strings.Trim(fmt.Sprintf("%q", string([]byte{x.Byte})), `"`))
		}
	}
	return b.String()
}
