package logqlref

import (
	"bytes"
	"encoding/json"
	"strconv"
	"strings"
	"unicode/utf8"
)

// ---------------------------------------------------------------------------------------------------------------
// json

func jsonScalarText(raw []byte) (string, bool) {
	raw = bytes.TrimSpace(raw)
	if len(raw) == 0 {
		return "", false
	}
	switch raw[0] {
	case '"':
		var s string
		if json.Unmarshal(raw, &s) != nil {
			return "", false
		}
		return s, true
	case '{', '[':
		return "", false
	case 'n': // null: no value
		return "", true
	}
	return string(raw), true // number / true / false: the literal text
}

// JSONFlatten is `| json` without parameters: the line must be a JSON object; nested objects are flattened with
// "_", arrays are skipped, strings are unescaped, numbers and booleans keep their literal text, null yields an
// empty value (= no label), keys are sanitised to [a-zA-Z0-9_].  ok == false: the line is not a JSON object
// (malformed, array, scalar, empty) - nothing is extracted and the entry is kept.
func JSONFlatten(line string) (kv [][2]string, ok bool) {
	if !json.Valid([]byte(line)) {
		return nil, false
	}
	var obj map[string]json.RawMessage
	if json.Unmarshal([]byte(line), &obj) != nil || obj == nil {
		return nil, false
	}
	flattenInto(&kv, "", []byte(line))
	return kv, true
}

func flattenInto(kv *[][2]string, prefix string, raw []byte) {
	dec := json.NewDecoder(bytes.NewReader(raw))
	dec.UseNumber()
	if t, err := dec.Token(); err != nil || t != json.Delim('{') {
		return
	}
	for dec.More() {
		kt, err := dec.Token()
		if err != nil {
			return
		}
		key := kt.(string)
		var v json.RawMessage
		if dec.Decode(&v) != nil {
			return
		}
		name := key
		if prefix != "" {
			name = prefix + "_" + key
		}
		tv := bytes.TrimSpace(v)
		switch {
		case len(tv) > 0 && tv[0] == '{':
			flattenInto(kv, name, tv)
		case len(tv) > 0 && tv[0] == '[':
		default:
			if s, ok := jsonScalarText(tv); ok {
				*kv = append(*kv, [2]string{sanitize(name), s})
			}
		}
	}
}

type pathSeg struct {
	key   string
	idx   int
	isIdx bool
}

// ParseJSONPath parses `a.b`, `a["b c"]`, `a[0]`, `[0].x`.
func ParseJSONPath(p string) ([]pathSeg, bool) {
	var segs []pathSeg
	i := 0
	for i < len(p) {
		switch {
		case p[i] == '.':
			i++
		case p[i] == '[':
			j := strings.IndexByte(p[i:], ']')
			if j < 0 {
				return nil, false
			}
			inner := p[i+1 : i+j]
			i += j + 1
			if len(inner) >= 2 && (inner[0] == '"' || inner[0] == '\'') {
				if inner[0] == '"' {
					s, err := strconv.Unquote(inner)
					if err != nil {
						return nil, false
					}
					segs = append(segs, pathSeg{key: s})
				} else {
					segs = append(segs, pathSeg{key: inner[1 : len(inner)-1]})
				}
			} else {
				n, err := strconv.Atoi(inner)
				if err != nil {
					return nil, false
				}
				segs = append(segs, pathSeg{idx: n, isIdx: true})
			}
		default:
			j := i
			for j < len(p) && p[j] != '.' && p[j] != '[' {
				j++
			}
			segs = append(segs, pathSeg{key: p[i:j]})
			i = j
		}
	}
	return segs, len(segs) > 0
}

// JSONExtract is `| json name="path", ...`: one label per parameter.  A string value is unescaped, a number or
// boolean keeps its literal text, an object or array is returned as its JSON text (objectIgnored: deviant rule,
// nothing is extracted), a missing path or null yields an empty value (= no label).  ok == false: the line is not
// valid JSON.
func JSONExtract(line string, params []Param, objectIgnored, lastSegmentOnly bool) (kv [][2]string, ok bool, err error) {
	if !json.Valid([]byte(line)) {
		return nil, false, nil
	}
	for _, p := range params {
		segs, good := ParseJSONPath(p.Expr)
		if !good {
			return nil, false, ErrUnsupported
		}
		if lastSegmentOnly && (len(segs) > 1 || segs[0].isIdx) {
			// deviant rule: only the last segment, as a top-level key
			last := segs[len(segs)-1]
			if last.isIdx {
				last = pathSeg{key: strconv.Itoa(last.idx + 1)}
			}
			segs = []pathSeg{last}
		}
		cur := json.RawMessage(line)
		found := true
		for _, s := range segs {
			t := bytes.TrimSpace(cur)
			if s.isIdx {
				var arr []json.RawMessage
				if len(t) == 0 || t[0] != '[' || json.Unmarshal(t, &arr) != nil || s.idx < 0 || s.idx >= len(arr) {
					found = false
					break
				}
				cur = arr[s.idx]
			} else {
				var obj map[string]json.RawMessage
				if len(t) == 0 || t[0] != '{' || json.Unmarshal(t, &obj) != nil {
					found = false
					break
				}
				v, has := obj[s.key]
				if !has {
					found = false
					break
				}
				cur = v
			}
		}
		if !found {
			continue
		}
		t := bytes.TrimSpace(cur)
		if len(t) > 0 && (t[0] == '{' || t[0] == '[') {
			if !objectIgnored {
				kv = append(kv, [2]string{p.Name, string(t)})
			}
			continue
		}
		if s, good := jsonScalarText(t); good {
			kv = append(kv, [2]string{p.Name, s})
		}
	}
	return kv, true, nil
}

// ---------------------------------------------------------------------------------------------------------------
// logfmt

// LogfmtPairs scans `key=value key2="quoted \"value\"" barekey` (the grammar of github.com/go-logfmt/logfmt, which
// Loki uses): keys are runs of characters other than space, '=' and '"'; a value is a quoted string with
// backslash escapes or a run without space, '=' and '"'; a key without '=' has an empty value.  ok == false: the
// line violates the grammar; the pairs scanned before the error are returned.
func LogfmtPairs(line string) (kv [][2]string, ok bool) {
	i := 0
	n := len(line)
	for {
		for i < n && line[i] <= ' ' {
			i++
		}
		if i >= n {
			return kv, true
		}
		ks := i
		for i < n && line[i] > ' ' && line[i] != '=' && line[i] != '"' {
			i++
		}
		key := line[ks:i]
		if key == "" || !utf8.ValidString(key) {
			return kv, false
		}
		if i >= n || line[i] <= ' ' {
			kv = append(kv, [2]string{key, ""})
			continue
		}
		if line[i] == '"' {
			return kv, false
		}
		i++ // '='
		if i >= n || line[i] <= ' ' {
			kv = append(kv, [2]string{key, ""})
			continue
		}
		if line[i] == '"' {
			j := i + 1
			esc := false
			for j < n && (line[j] != '"' || esc) {
				esc = !esc && line[j] == '\\'
				j++
			}
			if j >= n {
				return kv, false
			}
			raw := line[i : j+1]
			val, err := strconv.Unquote(raw)
			if err != nil {
				val = raw[1 : len(raw)-1]
			}
			i = j + 1
			if i < n && line[i] > ' ' {
				return kv, false
			}
			kv = append(kv, [2]string{key, val})
			continue
		}
		vs := i
		for i < n && line[i] > ' ' {
			if line[i] == '=' || line[i] == '"' {
				return kv, false
			}
			i++
		}
		kv = append(kv, [2]string{key, line[vs:i]})
	}
}

// LogfmtPairsLenient is the scanner of github.com/kr/logfmt (deviant rule LogfmtLenient): bytes <= ' ', '"' and '='
// outside a token are garbage; key = run of other bytes; `key=` + run or quoted string is a pair, anything else
// yields the key with an empty value.  ok == false only for an unterminated quoted value.
func LogfmtPairsLenient(line string) (kv [][2]string, ok bool) {
	ident := func(c byte) bool { return c > ' ' && c != '"' && c != '=' }
	n := len(line)
	i := 0
	for {
		for i < n && !ident(line[i]) {
			i++
		}
		if i >= n {
			return kv, true
		}
		m := i
		for i < n && ident(line[i]) {
			i++
		}
		key := line[m:i]
		if i >= n {
			return append(kv, [2]string{key, ""}), true
		}
		if line[i] != '=' {
			i++
			kv = append(kv, [2]string{key, ""})
			continue
		}
		i++ // past '='
		if i >= n {
			return append(kv, [2]string{key, ""}), true
		}
		switch {
		case ident(line[i]):
			m = i
			for i < n && ident(line[i]) {
				i++
			}
			kv = append(kv, [2]string{key, line[m:i]})
			i++
		case line[i] == '"':
			m = i
			i++
			esc := false
			closed := false
			for i < n {
				if line[i] == '\\' {
					i += 2
					esc = true
					continue
				}
				if line[i] == '"' {
					i++
					closed = true
					break
				}
				i++
			}
			if !closed {
				return kv, false
			}
			val := line[m+1 : i-1]
			if esc {
				if u, err := strconv.Unquote(line[m:i]); err == nil {
					val = u
				}
			}
			kv = append(kv, [2]string{key, val})
		default:
			kv = append(kv, [2]string{key, ""})
			i++
		}
	}
}
