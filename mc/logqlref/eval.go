package logqlref

import (
	"bytes"
	"errors"
	"fmt"
	"math"
	"regexp"
	"regexp/syntax"
	"sort"
	"strconv"
	"strings"
	"text/template"
)

// ErrUnsupported is returned for constructs the reference does not model (never a verdict).
var ErrUnsupported = errors.New("logqlref: unsupported construct")

// Rules selects *documented deviant rules*.  The zero value is the LogQL definition.  A check that finds a
// disagreement re-evaluates with one deviant rule switched on: if implementation and deviant reference then
// agree, the disagreement is explained by that rule (DESIGN.md section 7, "known findings are matched by
// explanation").  Nothing here is ever switched on to decide that a property holds.
type Rules struct {
	// --- conventions the property statements leave open (a check states which one it uses) -------------------
	// LogQL anchors the regex of stream matchers and label filters; C07 says anchoring "is not demanded".
	UnanchoredMatcherRegex     bool
	UnanchoredLabelFilterRegex bool
	// Loki renames an extracted label that collides with a label of the original stream to <name>_extracted.
	// With this switch the extracted value simply overwrites.
	ExtractedOverwrites bool

	// --- deviant rules (each one is a defect explanation) ------------------------------------------------------
	RenameKeepsSource         bool // label_format dst=src copies instead of renaming (src stays)
	UnwrapInvalidAsZero       bool // missing / non-numeric unwrap label contributes the value 0 instead of nothing
	VectorAggNoGroupPerSeries bool // vector aggregation without by/without keeps every input series (D17)
	ParseErrorAborts          bool // a line the json/logfmt stage cannot parse fails the whole query
	SeriesKeyConcat           bool // series identity = multiset of name+value concatenations (D19)
	LabelFormatNoRekey        bool // label_format changes labels but not the series identity
	DropRekeyOnlyIfChanged    bool // drop recomputes the series identity only for entries it changed
	LimitZeroIsEmpty          bool // limit 0 / absent returns nothing (D20)
	MinOverTimeIsMax          bool // D21
	FirstOverTimeZeroUnset    bool // first_over_time treats a stored 0 as "not set yet" (D22)
	FirstLastByArrival        bool // first/last_over_time follow arrival order, not timestamps
	JSONParamObjectIgnored    bool // json parameter whose path ends at an object/array extracts nothing
	BytesOverTimeDivByRange   bool // bytes_over_time divided by the range like bytes_rate (D16)
	// logfmt accepts any text (the scanner of github.com/kr/logfmt): '"' and blanks outside a value are separators,
	// every other token is a key, a key without value becomes a label with an EMPTY value that overwrites an
	// existing label and counts for series identity; only an unterminated quote is an error.
	LogfmtLenient bool
	// --- deviant rules of the SQL engine (used on the RulesBefore side of a split evaluation) -----------------
	LineFilterNotRegexIsRegex bool // `!~ "re"` with a non-literal regex keeps the MATCHING lines (negation lost, D12)
	LabelFormatIgnored        bool // label_format is accepted but has no effect
	// `json x="a.b"`: the value is looked up under the LAST path segment at the top level of the document
	// (`'a','b' as jp` aliases only 'b'); an index segment [i] is the string key "i+1"
	JSONParamLastSegmentOnly bool
	// a label filter placed before the first parser stage is evaluated on the labels of the stored stream,
	// whatever drop / label_format did before it
	LabelFilterBeforeParserOnStreamLabels bool
	// drop changes the label set but not the series identity
	DropNoRekey bool
	// a label filter placed after a parser stage is evaluated on the labels as a LATER drop stage (run by the
	// same engine) leaves them: the drop rewrites the `labels` alias of the SELECT that already holds the WHERE
	LabelFilterSeesLaterDrop bool
	// a label filter placed after a parser stage is evaluated on the labels as the NEXT json-with-parameters
	// stage(s) of the same engine leave them (same mechanism: the later stage rewrites the `labels` alias of the
	// SELECT whose WHERE holds the filter)
	LabelFilterSeesLaterParser bool
}

// Options of one evaluation.
type Options struct {
	Start, End int64 // window [Start, End) in ns; both 0 = unbounded
	Limit      int   // log queries: 0 = no limit
	Forward    bool  // log queries: oldest first; also the arrival order assumed by arrival-order deviant rules
	Rules      Rules
	// Split evaluation (C09 O2: one part of the pipeline runs in the SQL engine, the rest in process): stages
	// [0, SplitAt) are evaluated under RulesBefore, the remaining stages, the aggregations and the limit under
	// Rules.  AllBefore: everything under RulesBefore.  The definition has no notion of a split: with both rule
	// sets equal these fields change nothing.
	SplitAt     int
	RulesBefore Rules
	AllBefore   bool
}

// rulesAt: the rule set governing stage i.
func (o *Options) rulesAt(i int) Rules {
	if o.AllBefore || i < o.SplitAt {
		return o.RulesBefore
	}
	return o.Rules
}

// tracksKeys: some deviant rule makes series identity differ from the label set.
func (o *Options) tracksKeys() bool {
	for _, r := range []Rules{o.Rules, o.RulesBefore} {
		if r.SeriesKeyConcat || r.LabelFormatNoRekey || r.DropRekeyOnlyIfChanged || r.DropNoRekey {
			return true
		}
	}
	return false
}

// aggRules: the rule set governing aggregations, series identity and the limit.
func (o *Options) aggRules() Rules {
	if o.AllBefore {
		return o.RulesBefore
	}
	return o.Rules
}

// OutEntry is one entry of a log-query result.
type OutEntry struct {
	Labels   map[string]string
	TS       int64
	Line     string
	ParseErr bool // some parser stage could not parse the line (Loki would add __error__); labels are those
	// before that stage plus whatever later stages did
	Stream int // index of the source stream (diagnostics)
	// Key is the series identity as tracked by the deviant rekey rules (SeriesKeyConcat, LabelFormatNoRekey,
	// DropRekeyOnlyIfChanged); under the definition it is simply the identity of the label set.
	Key string
}

// Point is one sample of a series.
type Point struct {
	TS int64
	V  float64
	// MayBeAbsent: the definition leaves open whether this point is part of the result (tie at a topk cut).
	// ValueAmbiguous: the definition leaves the value open (first/last_over_time with equal timestamps).
	MayBeAbsent, ValueAmbiguous bool
}

// Series is one output series of a metric query; Points sorted by TS.
type Series struct {
	Labels map[string]string
	Points []Point
}

// Result of a metric query: series sorted by Canon(labels).  Aborted is only ever set by the deviant rule
// ParseErrorAborts.
type Matrix struct {
	Series  []Series
	Aborted bool
	// AbortIndex: position (in Arrival order) of the entry whose parse failure aborted the query; -1 otherwise.
	AbortIndex int
}

// LogResult of a log query.  All = every matching entry in result order (by timestamp in the requested
// direction; ties in arrival order); Limited = the first Limit of them (all when Limit == 0).  When entries
// tie on the timestamp at the cut the definition allows any of them: use CheckLimited.
type LogResult struct {
	All        []OutEntry
	Limited    []OutEntry
	Aborted    bool
	AbortIndex int // see Matrix.AbortIndex
}

// ---------------------------------------------------------------------------------------------------------------
// arrival order

// Arrived is one upstream entry in arrival order.
type Arrived struct {
	Stream int
	Entry  Entry
}

// Arrival flattens streams into the order a timestamp-ordered scan delivers them: ascending timestamps when
// forward, descending otherwise; equal timestamps in (stream, position) order.  Window-filtered when set.
func Arrival(streams []Stream, opt Options) []Arrived {
	var out []Arrived
	for si, s := range streams {
		for _, e := range s.Entries {
			if (opt.Start != 0 || opt.End != 0) && (e.TS < opt.Start || e.TS >= opt.End) {
				continue
			}
			out = append(out, Arrived{si, e})
		}
	}
	sort.SliceStable(out, func(i, j int) bool {
		if opt.Forward {
			return out[i].Entry.TS < out[j].Entry.TS
		}
		return out[i].Entry.TS > out[j].Entry.TS
	})
	return out
}

// ---------------------------------------------------------------------------------------------------------------
// matchers

func compileAnchored(p string, anchored bool) (*regexp.Regexp, error) {
	if anchored {
		p = "^(?:" + p + ")$"
	}
	return regexp.Compile(p)
}

// MatchStream evaluates the selector's matcher conjunction on a label set (absent label = empty string).
func MatchStream(ms []Matcher, labels map[string]string, r Rules) (bool, error) {
	for _, m := range ms {
		v := labels[m.Name]
		switch m.Op {
		case "=":
			if v != m.Value {
				return false, nil
			}
		case "!=":
			if v == m.Value {
				return false, nil
			}
		case "=~", "!~":
			re, err := compileAnchored(m.Value, !r.UnanchoredMatcherRegex)
			if err != nil {
				return false, err
			}
			if re.MatchString(v) != (m.Op == "=~") {
				return false, nil
			}
		default:
			return false, ErrUnsupported
		}
	}
	return true, nil
}

// ---------------------------------------------------------------------------------------------------------------
// per-entry pipeline state

type state struct {
	base     map[string]string // labels of the original stream
	labels   map[string]string
	line     string
	ts       int64
	stream   int
	value    float64
	hasValue bool
	parseErr bool
	key      string // series identity as tracked by the deviant rekey rules
	aborted  bool
	parsed   bool // a parser stage has run
}

func (e *LabelExpr) eval(labels map[string]string, r Rules) (bool, error) {
	switch e.Kind {
	case "paren":
		return e.L.eval(labels, r)
	case "and":
		a, err := e.L.eval(labels, r)
		if err != nil {
			return false, err
		}
		b, err := e.R.eval(labels, r)
		return a && b, err
	case "or":
		a, err := e.L.eval(labels, r)
		if err != nil {
			return false, err
		}
		b, err := e.R.eval(labels, r)
		return a || b, err
	case "cmp":
		v := labels[e.Name]
		if e.IsNum {
			if v == "" {
				return false, nil
			}
			f, err := strconv.ParseFloat(v, 64)
			if err != nil {
				return false, nil
			}
			switch e.Op {
			case "==", "=":
				return f == e.Num, nil
			case "!=":
				return f != e.Num, nil
			case ">":
				return f > e.Num, nil
			case ">=":
				return f >= e.Num, nil
			case "<":
				return f < e.Num, nil
			case "<=":
				return f <= e.Num, nil
			}
			return false, ErrUnsupported
		}
		switch e.Op {
		case "=":
			return v == e.Str, nil
		case "!=":
			return v != e.Str, nil
		case "=~", "!~":
			re, err := compileAnchored(e.Str, !r.UnanchoredLabelFilterRegex)
			if err != nil {
				return false, err
			}
			return re.MatchString(v) == (e.Op == "=~"), nil
		}
		return false, ErrUnsupported
	}
	return false, ErrUnsupported
}

func seriesKey(labels map[string]string, r Rules) string {
	if !r.SeriesKeyConcat {
		if r.LogfmtLenient {
			return "calc:" + canonStrict(labels)
		}
		return "calc:" + Canon(labels)
	}
	parts := make([]string, 0, len(labels))
	for k, v := range labels {
		parts = append(parts, k+v)
	}
	sort.Strings(parts)
	return "calc:" + strings.Join(parts, "\x00")
}

// identityKey: the label set as series identity; under LogfmtLenient empty-valued labels count.
func identityKey(l map[string]string, r Rules) string {
	if r.LogfmtLenient {
		return canonStrict(l)
	}
	return Canon(l)
}

// canonStrict is Canon that keeps empty-valued labels (only deviant rules distinguish them).
func canonStrict(l map[string]string) string {
	ks := make([]string, 0, len(l))
	for k := range l {
		ks = append(ks, k)
	}
	sort.Strings(ks)
	var b strings.Builder
	for _, k := range ks {
		b.WriteString(k)
		b.WriteByte('=')
		b.WriteString(strconv.Quote(l[k]))
		b.WriteByte(',')
	}
	return b.String()
}

func (st *state) setExtracted(k, v string, r Rules) {
	if _, inBase := st.base[k]; inBase && !r.ExtractedOverwrites {
		k += "_extracted"
	}
	st.labels[k] = v
}

// isLiteralRegex: the pattern is a plain literal (possibly case-insensitive) - the case the SQL engine turns into LIKE.
func isLiteralRegex(p string) bool {
	exp, err := syntax.Parse(p, syntax.PerlX)
	if err != nil {
		return false
	}
	return exp.Op == syntax.OpLiteral && exp.Flags&^(syntax.PerlX|syntax.FoldCase) == 0
}

var sanitizeRe = regexp.MustCompile(`[^a-zA-Z0-9_]`)

func sanitize(k string) string { return sanitizeRe.ReplaceAllString(k, "_") }

// apply runs one stage on one entry; keep == false drops the entry.
func (s *Stage) apply(st *state, r Rules) (keep bool, err error) {
	switch s.Kind {
	case LineFilter:
		switch s.Op {
		case "|=":
			return strings.Contains(st.line, s.Value), nil
		case "!=":
			return !strings.Contains(st.line, s.Value), nil
		case "|~", "!~":
			re, err := regexp.Compile(s.Value)
			if err != nil {
				return false, err
			}
			if s.Op == "!~" && r.LineFilterNotRegexIsRegex && !isLiteralRegex(s.Value) {
				return re.MatchString(st.line), nil
			}
			return re.MatchString(st.line) == (s.Op == "|~"), nil
		}
		return false, ErrUnsupported
	case LabelFilter:
		if r.LabelFilterBeforeParserOnStreamLabels && !st.parsed {
			return s.Filter.eval(st.base, r)
		}
		return s.Filter.eval(st.labels, r)
	case JSON:
		st.parsed = true
		var kv [][2]string
		var ok bool
		if len(s.Params) == 0 {
			kv, ok = JSONFlatten(st.line)
		} else {
			kv, ok, err = JSONExtract(st.line, s.Params, r.JSONParamObjectIgnored, r.JSONParamLastSegmentOnly)
			if err != nil {
				return false, err
			}
		}
		if !ok {
			st.parseErr = true
			if r.ParseErrorAborts {
				st.aborted = true
			}
		}
		for _, p := range kv {
			st.setExtracted(p[0], p[1], r)
		}
		st.key = seriesKey(st.labels, r)
		return true, nil
	case Logfmt:
		st.parsed = true
		kv, ok := LogfmtPairs(st.line)
		if r.LogfmtLenient {
			kv, ok = LogfmtPairsLenient(st.line)
		}
		if !ok {
			st.parseErr = true
			if r.ParseErrorAborts {
				st.aborted = true
			}
		}
		for _, p := range kv {
			if p[1] == "" && !r.LogfmtLenient {
				continue // a key without value extracts nothing
			}
			if len(s.Params) == 0 {
				st.setExtracted(sanitize(p[0]), p[1], r)
				continue
			}
			for _, prm := range s.Params {
				if prm.Expr == p[0] {
					st.setExtracted(prm.Name, p[1], r)
				}
			}
		}
		st.key = seriesKey(st.labels, r)
		return true, nil
	case Regexp:
		st.parsed = true
		re, err := regexp.Compile(s.Value)
		if err != nil {
			return false, err
		}
		m := re.FindStringSubmatch(st.line)
		if m != nil {
			for i, n := range re.SubexpNames() {
				if i > 0 && n != "" {
					st.setExtracted(n, m[i], r)
				}
			}
		}
		st.key = seriesKey(st.labels, r)
		return true, nil
	case LabelFormat:
		if r.LabelFormatIgnored {
			return true, nil
		}
		for _, f := range s.Formats {
			if f.IsConst {
				st.labels[f.Dst] = f.Const
				continue
			}
			v, ok := st.labels[f.Src]
			if !ok || v == "" {
				continue
			}
			st.labels[f.Dst] = v
			if !r.RenameKeepsSource && f.Dst != f.Src {
				delete(st.labels, f.Src)
			}
		}
		if !r.LabelFormatNoRekey {
			st.key = seriesKey(st.labels, r)
		}
		return true, nil
	case LineFormat:
		tpl, err := template.New("line").Option("missingkey=zero").Parse(s.Value)
		if err != nil {
			return false, ErrUnsupported
		}
		var b bytes.Buffer
		if err := tpl.Execute(&b, CopyLabels(st.labels)); err != nil {
			return false, ErrUnsupported
		}
		st.line = b.String()
		return true, nil
	case Drop:
		changed := false
		for _, d := range s.Drops {
			v, ok := st.labels[d.Name]
			if ok && (!d.HasValue || v == d.Value) {
				delete(st.labels, d.Name)
				changed = true
			}
		}
		if (changed || !r.DropRekeyOnlyIfChanged) && !r.DropNoRekey {
			st.key = seriesKey(st.labels, r)
		}
		return true, nil
	case Unwrap:
		v, ok := st.labels[s.Value]
		f, perr := strconv.ParseFloat(v, 64)
		if !ok || v == "" || perr != nil {
			if r.UnwrapInvalidAsZero {
				st.value, st.hasValue = 0, true
				return true, nil
			}
			return false, nil
		}
		st.value, st.hasValue = f, true
		return true, nil
	}
	return false, ErrUnsupported
}

// filterSeeingLaterDrops: deviant rule LabelFilterSeesLaterDrop.
func (q *LogQuery) filterSeeingLaterDrops(i int, st *state, opt Options) (bool, error) {
	labels := CopyLabels(st.labels)
	for j := i + 1; j < len(q.Stages); j++ {
		if !opt.AllBefore && j >= opt.SplitAt {
			break
		}
		if q.Stages[j].Kind != Drop {
			continue
		}
		for _, d := range q.Stages[j].Drops {
			if v, ok := labels[d.Name]; ok && (!d.HasValue || v == d.Value) {
				delete(labels, d.Name)
			}
		}
	}
	return q.Stages[i].Filter.eval(labels, opt.rulesAt(i))
}

// dropBefore: a drop stage precedes stage i (such a label filter is not evaluated on the stored stream labels).
func (q *LogQuery) dropBefore(i int) bool {
	for _, s := range q.Stages[:i] {
		if s.Kind == Drop {
			return true
		}
	}
	return false
}

// filterSeeingLaterParsers: deviant rule LabelFilterSeesLaterParser.
func (q *LogQuery) filterSeeingLaterParsers(i int, st *state, opt Options) (bool, error) {
	tmp := *st
	tmp.labels = CopyLabels(st.labels)
	applied := false
scan:
	for j := i + 1; j < len(q.Stages); j++ {
		if !opt.AllBefore && j >= opt.SplitAt {
			break
		}
		switch sj := &q.Stages[j]; {
		case sj.Kind == JSON && len(sj.Params) > 0:
			if _, err := sj.apply(&tmp, opt.rulesAt(j)); err != nil {
				return false, err
			}
			applied = true
		case applied:
			break scan // the select is renewed after the run of parser stages
		case sj.Kind == LabelFilter || sj.Kind == LineFilter || sj.Kind == LabelFormat:
			// these only add conditions (label_format: nothing) to the same select
		default:
			break scan
		}
	}
	return q.Stages[i].Filter.eval(tmp.labels, opt.rulesAt(i))
}

// run evaluates the selector on every arriving entry and returns the survivors in arrival order.
func (q *LogQuery) run(streams []Stream, opt Options) (out []*state, abortIdx int, err error) {
	match := make([]bool, len(streams))
	for i, s := range streams {
		match[i], err = MatchStream(q.Matchers, s.Labels, opt.Rules)
		if err != nil {
			return nil, -1, err
		}
	}
	for ai, a := range Arrival(streams, opt) {
		if !match[a.Stream] {
			continue
		}
		base := streams[a.Stream].Labels
		st := &state{base: base, labels: CopyLabels(base), line: a.Entry.Line, ts: a.Entry.TS, stream: a.Stream,
			key: "stored:" + Canon(base)}
		keep := true
		for i := range q.Stages {
			ri := opt.rulesAt(i)
			if ri.LabelFilterSeesLaterDrop && q.Stages[i].Kind == LabelFilter && st.parsed {
				keep, err = q.filterSeeingLaterDrops(i, st, opt)
			} else if ri.LabelFilterSeesLaterParser && q.Stages[i].Kind == LabelFilter && (st.parsed || q.dropBefore(i)) {
				keep, err = q.filterSeeingLaterParsers(i, st, opt)
			} else {
				keep, err = q.Stages[i].apply(st, ri)
			}
			if err != nil {
				return nil, -1, err
			}
			if st.aborted {
				return nil, ai, nil
			}
			if !keep {
				break
			}
		}
		if keep {
			out = append(out, st)
		}
	}
	return out, -1, nil
}

// EvalLog evaluates a log query.
func EvalLog(q *LogQuery, streams []Stream, opt Options) (LogResult, error) {
	sts, abortIdx, err := q.run(streams, opt)
	if err != nil {
		return LogResult{}, err
	}
	if abortIdx >= 0 {
		return LogResult{Aborted: true, AbortIndex: abortIdx}, nil
	}
	res := LogResult{AbortIndex: -1}
	for _, st := range sts {
		key := st.key
		if !opt.tracksKeys() {
			key = identityKey(st.labels, opt.aggRules())
		}
		res.All = append(res.All, OutEntry{Labels: st.labels, TS: st.ts, Line: st.line, ParseErr: st.parseErr,
			Stream: st.stream, Key: key})
	}
	res.Limited = res.All
	if opt.Limit > 0 && len(res.All) > opt.Limit {
		res.Limited = res.All[:opt.Limit]
	}
	if opt.Limit == 0 && opt.aggRules().LimitZeroIsEmpty {
		res.Limited = nil
	}
	return res, nil
}

// ---------------------------------------------------------------------------------------------------------------
// metric queries

func applyGrouping(l map[string]string, g *Grouping) map[string]string {
	if g == nil {
		return l
	}
	out := map[string]string{}
	in := func(k string) bool {
		for _, x := range g.Labels {
			if x == k {
				return true
			}
		}
		return false
	}
	for k, v := range l {
		if in(k) != g.Without {
			out[k] = v
		}
	}
	return out
}

type bucketAcc struct {
	n            int
	sum          float64
	min, max     float64
	firstTS      int64
	lastTS       int64
	first, last  float64
	firstAmb     bool
	lastAmb      bool
	arrFirst     float64 // arrival-order variants (deviant rules)
	arrLast      float64
	zeroUnsetCur float64
}

type seriesAcc struct {
	labels  map[string]string
	buckets map[int64]*bucketAcc
}

func floorTo(ts, d int64) int64 {
	m := ts % d
	if m < 0 {
		m += d
	}
	return ts - m
}

// evalRange evaluates one range aggregation: bucket = floor(ts/range)*range.
func evalRange(ra *RangeAgg, streams []Stream, opt Options) ([]Series, int, error) {
	if ra.RangeNs <= 0 {
		return nil, -1, ErrUnsupported
	}
	unwrapped := len(ra.Sel.Stages) > 0 && ra.Sel.Stages[len(ra.Sel.Stages)-1].Kind == Unwrap
	switch ra.Fn {
	case "rate":
	case "count_over_time", "bytes_rate", "bytes_over_time":
		if unwrapped {
			return nil, -1, ErrUnsupported
		}
	case "sum_over_time", "avg_over_time", "min_over_time", "max_over_time", "first_over_time", "last_over_time":
		if !unwrapped {
			return nil, -1, ErrUnsupported
		}
	default:
		return nil, -1, ErrUnsupported
	}
	sts, aborted, err := ra.Sel.run(streams, opt)
	if err != nil || aborted >= 0 {
		return nil, aborted, err
	}
	r := opt.aggRules()
	acc := map[string]*seriesAcc{}
	var order []string
	for _, st := range sts {
		labels := st.labels
		key := st.key
		if ra.Grouping != nil {
			labels = applyGrouping(labels, ra.Grouping)
			key = seriesKey(labels, r)
		}
		if !opt.tracksKeys() {
			key = identityKey(labels, r) // the definition: series identity is the label set
		}
		sa := acc[key]
		if sa == nil {
			sa = &seriesAcc{labels: labels, buckets: map[int64]*bucketAcc{}}
			acc[key] = sa
			order = append(order, key)
		}
		b := floorTo(st.ts, ra.RangeNs)
		ba := sa.buckets[b]
		var v float64
		if unwrapped {
			v = st.value
		} else {
			switch ra.Fn {
			case "bytes_rate", "bytes_over_time":
				v = float64(len(st.line))
			default:
				v = 1
			}
		}
		if ba == nil {
			ba = &bucketAcc{min: v, max: v, firstTS: st.ts, lastTS: st.ts, first: v, last: v, arrFirst: v}
			sa.buckets[b] = ba
		} else {
			ba.min = math.Min(ba.min, v)
			ba.max = math.Max(ba.max, v)
			switch {
			case st.ts < ba.firstTS:
				ba.firstTS, ba.first, ba.firstAmb = st.ts, v, false
			case st.ts == ba.firstTS && v != ba.first:
				ba.firstAmb = true
			}
			switch {
			case st.ts > ba.lastTS:
				ba.lastTS, ba.last, ba.lastAmb = st.ts, v, false
			case st.ts == ba.lastTS && v != ba.last:
				ba.lastAmb = true
			}
		}
		if ba.zeroUnsetCur == 0 {
			ba.zeroUnsetCur = v
		}
		ba.arrLast = v
		ba.n++
		ba.sum += v
	}
	secs := float64(ra.RangeNs) / 1e9
	var out []Series
	for _, key := range order {
		sa := acc[key]
		s := Series{Labels: sa.labels}
		bs := make([]int64, 0, len(sa.buckets))
		for b := range sa.buckets {
			bs = append(bs, b)
		}
		sort.Slice(bs, func(i, j int) bool { return bs[i] < bs[j] })
		for _, b := range bs {
			ba := sa.buckets[b]
			p := Point{TS: b}
			switch ra.Fn {
			case "rate", "bytes_rate":
				p.V = ba.sum / secs
			case "count_over_time", "sum_over_time":
				p.V = ba.sum
			case "bytes_over_time":
				p.V = ba.sum
				if r.BytesOverTimeDivByRange {
					p.V = ba.sum / secs
				}
			case "avg_over_time":
				p.V = ba.sum / float64(ba.n)
			case "min_over_time":
				p.V = ba.min
				if r.MinOverTimeIsMax {
					p.V = ba.max
				}
			case "max_over_time":
				p.V = ba.max
			case "first_over_time":
				p.V, p.ValueAmbiguous = ba.first, ba.firstAmb
				if r.FirstLastByArrival {
					p.V, p.ValueAmbiguous = ba.arrFirst, false
				}
				if r.FirstOverTimeZeroUnset {
					// deviant: "first non-zero value in arrival order, 0 when there is none"
					p.V, p.ValueAmbiguous = ba.zeroUnsetCur, false
				}
			case "last_over_time":
				p.V, p.ValueAmbiguous = ba.last, ba.lastAmb
				if r.FirstLastByArrival {
					p.V, p.ValueAmbiguous = ba.arrLast, false
				}
			}
			if ra.Cmp != nil && !ra.Cmp.holds(p.V) {
				continue
			}
			s.Points = append(s.Points, p)
		}
		if len(s.Points) > 0 {
			out = append(out, s)
		}
	}
	return out, -1, nil
}

func (c *Comparison) holds(v float64) bool {
	switch c.Op {
	case "==":
		return v == c.Val
	case "!=":
		return v != c.Val
	case ">":
		return v > c.Val
	case ">=":
		return v >= c.Val
	case "<":
		return v < c.Val
	case "<=":
		return v <= c.Val
	}
	return false
}

func evalVector(va *VectorAgg, streams []Stream, opt Options) ([]Series, int, error) {
	switch va.Fn {
	case "sum", "min", "max", "avg", "count":
	default:
		return nil, -1, ErrUnsupported
	}
	vr := opt.aggRules()
	in, aborted, err := evalRange(&va.Inner, streams, opt)
	if err != nil || aborted >= 0 {
		return nil, aborted, err
	}
	type cell struct {
		n        int
		sum      float64
		min, max float64
		amb      bool
	}
	type grp struct {
		labels map[string]string
		cells  map[int64]*cell
	}
	groups := map[string]*grp{}
	var order []string
	for si, s := range in {
		var gl map[string]string
		var key string
		switch {
		case va.Grouping != nil:
			gl = applyGrouping(s.Labels, va.Grouping)
			key = seriesKey(gl, vr)
		case vr.VectorAggNoGroupPerSeries:
			gl = s.Labels
			key = fmt.Sprintf("series:%d", si)
		default:
			gl = map[string]string{}
			key = seriesKey(gl, vr)
		}
		g := groups[key]
		if g == nil {
			g = &grp{labels: gl, cells: map[int64]*cell{}}
			groups[key] = g
			order = append(order, key)
		}
		for _, p := range s.Points {
			c := g.cells[p.TS]
			if c == nil {
				c = &cell{min: p.V, max: p.V}
				g.cells[p.TS] = c
			}
			c.n++
			c.sum += p.V
			c.min = math.Min(c.min, p.V)
			c.max = math.Max(c.max, p.V)
			c.amb = c.amb || p.ValueAmbiguous
		}
	}
	var out []Series
	for _, key := range order {
		g := groups[key]
		s := Series{Labels: g.labels}
		tss := make([]int64, 0, len(g.cells))
		for t := range g.cells {
			tss = append(tss, t)
		}
		sort.Slice(tss, func(i, j int) bool { return tss[i] < tss[j] })
		for _, t := range tss {
			c := g.cells[t]
			p := Point{TS: t, ValueAmbiguous: c.amb && va.Fn != "count"}
			switch va.Fn {
			case "sum":
				p.V = c.sum
			case "min":
				p.V = c.min
			case "max":
				p.V = c.max
			case "avg":
				p.V = c.sum / float64(c.n)
			case "count":
				p.V = float64(c.n)
			}
			if va.Cmp != nil && !va.Cmp.holds(p.V) {
				continue
			}
			s.Points = append(s.Points, p)
		}
		if len(s.Points) > 0 {
			out = append(out, s)
		}
	}
	return out, -1, nil
}

func evalTopK(t *TopK, streams []Stream, opt Options) ([]Series, int, error) {
	var in []Series
	aborted := -1
	var err error
	if t.Range != nil {
		in, aborted, err = evalRange(t.Range, streams, opt)
	} else if t.Vector != nil {
		in, aborted, err = evalVector(t.Vector, streams, opt)
	} else {
		return nil, -1, ErrUnsupported
	}
	if err != nil || aborted >= 0 {
		return nil, aborted, err
	}
	if t.K <= 0 {
		return nil, -1, nil
	}
	type ref struct {
		s int
		p Point
	}
	byTS := map[int64][]ref{}
	for si, s := range in {
		for _, p := range s.Points {
			byTS[p.TS] = append(byTS[p.TS], ref{si, p})
		}
	}
	keep := make([][]Point, len(in))
	for ts, rs := range byTS {
		_ = ts
		sort.SliceStable(rs, func(i, j int) bool {
			if t.Bottom {
				return rs[i].p.V < rs[j].p.V
			}
			return rs[i].p.V > rs[j].p.V
		})
		n := t.K
		if n > len(rs) {
			n = len(rs)
		}
		tie := false
		var cut float64
		if n < len(rs) && rs[n-1].p.V == rs[n].p.V {
			tie, cut = true, rs[n].p.V
		}
		for i, r := range rs {
			p := r.p
			switch {
			case tie && p.V == cut:
				p.MayBeAbsent = true
			case i >= n:
				continue
			}
			if t.Cmp != nil && !t.Cmp.holds(p.V) {
				continue
			}
			keep[r.s] = append(keep[r.s], p)
		}
	}
	var out []Series
	for si, ps := range keep {
		if len(ps) == 0 {
			continue
		}
		sort.Slice(ps, func(i, j int) bool { return ps[i].TS < ps[j].TS })
		out = append(out, Series{Labels: in[si].Labels, Points: ps})
	}
	return out, -1, nil
}

// EvalMetric evaluates a metric query: (series label set, bucket start, value) triples, series sorted by
// Canon(labels).  Two series with the same label set can only appear under deviant rules.
func EvalMetric(q *Query, streams []Stream, opt Options) (Matrix, error) {
	var ss []Series
	aborted := -1
	var err error
	switch {
	case q.Range != nil:
		ss, aborted, err = evalRange(q.Range, streams, opt)
	case q.Vector != nil:
		ss, aborted, err = evalVector(q.Vector, streams, opt)
	case q.TopK != nil:
		ss, aborted, err = evalTopK(q.TopK, streams, opt)
	default:
		return Matrix{}, ErrUnsupported
	}
	if err != nil {
		return Matrix{}, err
	}
	if aborted >= 0 {
		return Matrix{Aborted: true, AbortIndex: aborted}, nil
	}
	sort.SliceStable(ss, func(i, j int) bool { return Canon(ss[i].Labels) < Canon(ss[j].Labels) })
	return Matrix{Series: ss, AbortIndex: -1}, nil
}
