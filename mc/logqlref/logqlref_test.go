package logqlref

import (
	"reflect"
	"testing"
)

// Expectations below are written by hand from the LogQL documentation, not produced by running anything.

func sel(stages ...Stage) *LogQuery {
	return &LogQuery{Matchers: []Matcher{{"app", "=", "x"}}, Stages: stages}
}

var data = []Stream{
	{Labels: map[string]string{"app": "x", "env": "p"}, Entries: []Entry{
		{1e9, `{"a":"1","n":{"k":"v"},"arr":[1,2],"f":1.50,"t":true,"z":null}`},
		{2e9, `a=2 msg="hello world" bare`},
		{6e9, `{"a":"7"}`},
		{7e9, `{"a":`},
	}},
	{Labels: map[string]string{"app": "x", "env": "q"}, Entries: []Entry{{3e9, `{"a":"3"}`}}},
	{Labels: map[string]string{"app": "y"}, Entries: []Entry{{4e9, `{"a":"4"}`}}},
}

func TestRender(t *testing.T) {
	q := Query{Vector: &VectorAgg{Fn: "sum", Grouping: &Grouping{Labels: []string{"env"}},
		Inner: RangeAgg{Fn: "sum_over_time", RangeNs: 5e9, Sel: LogQuery{
			Matchers: []Matcher{{"app", "=~", "x|y"}},
			Stages: []Stage{{Kind: LineFilter, Op: "|=", Value: `"a"`}, {Kind: JSON},
				{Kind: LabelFilter, Filter: &LabelExpr{Kind: "or",
					L: &LabelExpr{Kind: "cmp", Name: "a", Op: ">", IsNum: true, Num: 1, NumText: "1"},
					R: &LabelExpr{Kind: "cmp", Name: "env", Op: "=", Str: "q"}}},
				{Kind: Unwrap, Value: "a"}}}},
		Cmp: &Comparison{Op: ">", Val: 0, ValText: "0"}}}
	want := `sum by (env) (sum_over_time({app=~"x|y"} |= "\"a\"" | json | a > 1 or env = "q" | unwrap a [5s])) > 0`
	if q.String() != want {
		t.Fatalf("got  %s\nwant %s", q.String(), want)
	}
}

func TestJSONAndFilters(t *testing.T) {
	r, err := EvalLog(sel(Stage{Kind: JSON}), data, Options{})
	if err != nil {
		t.Fatal(err)
	}
	if len(r.All) != 5 { // stream app=y excluded; nothing is dropped by json
		t.Fatalf("want 5 entries got %d", len(r.All))
	}
	// newest first
	if r.All[0].TS != 7e9 || !r.All[0].ParseErr || Canon(r.All[0].Labels) != `{app="x",env="p"}` {
		t.Fatalf("malformed line must be kept with unchanged labels: %+v", r.All[0])
	}
	last := r.All[4]
	want := map[string]string{"app": "x", "env": "p", "a": "1", "n_k": "v", "f": "1.50", "t": "true", "z": ""}
	if !reflect.DeepEqual(last.Labels, want) {
		t.Fatalf("flatten: got %v want %v", last.Labels, want)
	}
	// logfmt line through json: not an object
	if !r.All[3].ParseErr || r.All[3].TS != 2e9 {
		t.Fatalf("logfmt line through json: %+v", r.All[3])
	}
	r, _ = EvalLog(sel(Stage{Kind: JSON}, Stage{Kind: LabelFilter, Filter: &LabelExpr{Kind: "cmp", Name: "a", Op: ">=",
		IsNum: true, Num: 3}}), data, Options{})
	if len(r.All) != 2 || r.All[0].TS != 6e9 || r.All[1].TS != 3e9 {
		t.Fatalf("numeric filter: %+v", r.All)
	}
	// anchored regex in label filter
	r, _ = EvalLog(sel(Stage{Kind: LabelFilter, Filter: &LabelExpr{Kind: "cmp", Name: "env", Op: "=~", Str: ""}}), data,
		Options{})
	if len(r.All) != 0 {
		t.Fatalf("anchored empty regex must not match non-empty values")
	}
}

func TestJSONParamsLogfmtFormat(t *testing.T) {
	r, _ := EvalLog(sel(Stage{Kind: JSON, Params: []Param{{"x", "n.k"}, {"y", "arr[1]"}, {"o", "n"}, {"m", "nope"}}}), data[:1],
		Options{Forward: true, Limit: 1})
	if len(r.Limited) != 1 || r.Limited[0].TS != 1e9 {
		t.Fatalf("forward limit 1: %+v", r.Limited)
	}
	want := map[string]string{"app": "x", "env": "p", "x": "v", "y": "2", "o": `{"k":"v"}`}
	if !reflect.DeepEqual(r.Limited[0].Labels, want) {
		t.Fatalf("json params: got %v want %v", r.Limited[0].Labels, want)
	}
	r, _ = EvalLog(sel(Stage{Kind: Logfmt}, Stage{Kind: LabelFormat, Formats: []LabelFmt{{Dst: "b", Src: "a"},
		{Dst: "c", Const: "k", IsConst: true}}}, Stage{Kind: Drop, Drops: []DropParam{{Name: "env", Value: "zz", HasValue: true},
		{Name: "bare"}}}, Stage{Kind: LineFormat, Value: "{{.b}}-{{.nope}}-{{.msg}}"}), data[:1], Options{Start: 2e9, End: 3e9})
	if len(r.All) != 1 {
		t.Fatalf("window: %+v", r.All)
	}
	wantL := map[string]string{"app": "x", "env": "p", "b": "2", "c": "k", "msg": "hello world"}
	if !reflect.DeepEqual(r.All[0].Labels, wantL) || r.All[0].Line != "2--hello world" {
		t.Fatalf("logfmt/label_format/drop/line_format: %v %q", r.All[0].Labels, r.All[0].Line)
	}
	if _, ok := LogfmtPairs(`a="unterminated`); ok {
		t.Fatal("unterminated quote must be an error")
	}
	if _, ok := LogfmtPairs(`{"a":"b"}`); ok {
		t.Fatal("quote inside a key must be an error")
	}
}

func TestMetrics(t *testing.T) {
	streams := []Stream{
		{Labels: map[string]string{"app": "x", "h": "1"}, Entries: []Entry{{1e9, `{"v":"2"}`}, {4e9, `{"v":"5"}`}, {5e9, `{"v":"0"}`},
			{6e9, `{"q":"0"}`}}},
		{Labels: map[string]string{"app": "x", "h": "2"}, Entries: []Entry{{2e9, `{"v":"10"}`}}},
	}
	uw := LogQuery{Matchers: []Matcher{{"app", "=", "x"}}, Stages: []Stage{{Kind: JSON, Params: []Param{{"v", "v"}}},
		{Kind: Unwrap, Value: "v"}}}
	m, err := EvalMetric(&Query{Range: &RangeAgg{Fn: "count_over_time", RangeNs: 5e9, Sel: LogQuery{Matchers: uw.Matchers}}},
		streams, Options{})
	if err != nil || len(m.Series) != 2 {
		t.Fatal(err, m)
	}
	if got := ptsText(m.Series[0].Points); got != "[0:2 5000000000:2]" {
		t.Fatalf("count_over_time buckets: %s", got)
	}
	// unwrap: v stays a label, so each distinct value is its own series unless grouped
	m, _ = EvalMetric(&Query{Range: &RangeAgg{Fn: "max_over_time", RangeNs: 5e9, Sel: uw, Grouping: &Grouping{Labels: []string{"h"}}}},
		streams, Options{})
	if len(m.Series) != 2 || ptsText(m.Series[0].Points) != "[0:5 5000000000:0]" || ptsText(m.Series[1].Points) != "[0:10]" {
		t.Fatalf("max_over_time by (h): %+v", m)
	}
	m, _ = EvalMetric(&Query{Range: &RangeAgg{Fn: "first_over_time", RangeNs: 10e9, Sel: uw, Grouping: &Grouping{Labels: []string{"app"}}}},
		streams, Options{})
	if len(m.Series) != 1 || ptsText(m.Series[0].Points) != "[0:2]" {
		t.Fatalf("first_over_time by (app): %+v", m)
	}
	m, _ = EvalMetric(&Query{Vector: &VectorAgg{Fn: "sum", Inner: RangeAgg{Fn: "rate", RangeNs: 5e9,
		Sel: LogQuery{Matchers: uw.Matchers}}}}, streams, Options{})
	if len(m.Series) != 1 || Canon(m.Series[0].Labels) != "{}" || len(m.Series[0].Points) != 2 ||
		!FloatEq(m.Series[0].Points[0].V, 0.6) || !FloatEq(m.Series[0].Points[1].V, 0.4) {
		t.Fatalf("sum(rate): %+v", m)
	}
	m, _ = EvalMetric(&Query{TopK: &TopK{K: 1, Range: &RangeAgg{Fn: "count_over_time", RangeNs: 5e9,
		Sel: LogQuery{Matchers: uw.Matchers}}}}, streams, Options{})
	if len(m.Series) != 1 || Canon(m.Series[0].Labels) != `{app="x",h="1"}` {
		t.Fatalf("topk: %+v", m)
	}
	if d := CompareMatrix(m, []GotSeries{{Labels: map[string]string{"app": "x", "h": "1"}, Points: []Point{{TS: 0, V: 2}, {TS: 5e9, V: 2}}}}); d != "" {
		t.Fatal(d)
	}
}

func TestCompareLogLimitTies(t *testing.T) {
	streams := []Stream{{Labels: map[string]string{"app": "x"}, Entries: []Entry{{1, "a"}, {2, "b"}, {2, "c"}, {3, "d"}}}}
	r, _ := EvalLog(sel(), streams, Options{Limit: 2})
	l := map[string]string{"app": "x"}
	if d := CompareLog(r, []GotEntry{{l, 3, "d"}, {l, 2, "c"}}, 2, false); d != "" {
		t.Fatal(d)
	}
	if d := CompareLog(r, []GotEntry{{l, 3, "d"}, {l, 2, "b"}}, 2, false); d != "" {
		t.Fatal(d)
	}
	if d := CompareLog(r, []GotEntry{{l, 3, "d"}, {l, 1, "a"}}, 2, false); d == "" {
		t.Fatal("older entry accepted")
	}
	if d := CompareLog(r, []GotEntry{{l, 3, "d"}}, 2, false); d == "" {
		t.Fatal("short answer accepted")
	}
}
