// Package logqlref is a direct, deliberately boring reference evaluator of LogQL semantics over in-memory
// data.  It is written against the LogQL *definition* (Grafana Loki documentation) and the property statements
// C07/C08/C09 of /verif/properties.jsonl - not by imitating qryn.  It has no dependency on /repo.
//
// model.go: the query model (plain structs) and its rendering to LogQL text.  Enumerators build a Query, render
// it with String() for the implementation under test and hand the same Query to Eval* for the expected result.
package logqlref

import (
	"fmt"
	"sort"
	"strconv"
	"strings"
)

// ---------------------------------------------------------------------------------------------------------------
// data

// Entry is one log line of a stream.
type Entry struct {
	TS   int64 // unix nanoseconds
	Line string
}

// Stream is a stored log stream: label set + entries (any order).
type Stream struct {
	Labels  map[string]string
	Entries []Entry
}

// ---------------------------------------------------------------------------------------------------------------
// query model

// Matcher is one stream-selector matcher.  Op is one of = != =~ !~.
type Matcher struct {
	Name, Op, Value string
}

// StageKind enumerates pipeline stages.
type StageKind int

const (
	LineFilter  StageKind = iota // Op in |= != |~ !~ ; Value
	LabelFilter                  // Filter
	JSON                         // Params empty: full extraction; else one label per parameter
	Logfmt                       // Params empty: full extraction; else only the named fields
	Regexp                       // Value = RE2 pattern with named groups
	LabelFormat                  // Formats
	LineFormat                   // Value = Go text/template over the labels
	Drop                         // Drops
	Unwrap                       // Value = label name
)

func (k StageKind) String() string {
	return [...]string{"line_filter", "label_filter", "json", "logfmt", "regexp", "label_format", "line_format",
		"drop", "unwrap"}[k]
}

// Param is `name="expr"` of `| json name="expr"` / `| logfmt name="field"`.
type Param struct {
	Name, Expr string
}

// LabelFmt is one operation of label_format: `Dst=Src` (rename) or `Dst="Const"`.
type LabelFmt struct {
	Dst     string
	Src     string // rename source (IsConst == false)
	Const   string
	IsConst bool
}

// DropParam is one operand of drop: `name` or `name="value"`.
type DropParam struct {
	Name     string
	Value    string
	HasValue bool
}

// LabelExpr is a label-filter expression tree.
//
//	Kind "cmp": leaf `Name Op value` (IsNum: numeric comparison with Num, NumText is the literal as written;
//	            otherwise string/regex comparison with Str).  String ops: = != =~ !~ ; numeric ops: == != > >= < <=
//	            (and "=" which LogQL accepts as a synonym of == for numbers).
//	Kind "and"/"or": L op R.   Kind "paren": (L).
type LabelExpr struct {
	Kind    string
	L, R    *LabelExpr
	Name    string
	Op      string
	Str     string
	IsNum   bool
	Num     float64
	NumText string
}

// Stage is one pipeline stage.
type Stage struct {
	Kind    StageKind
	Op      string // LineFilter
	Value   string // LineFilter needle / Regexp pattern / LineFormat template / Unwrap label
	Filter  *LabelExpr
	Params  []Param
	Formats []LabelFmt
	Drops   []DropParam
}

// LogQuery is `{matchers} | stage | stage ...`.
type LogQuery struct {
	Matchers []Matcher
	Stages   []Stage
}

// Grouping is `by (labels)` / `without (labels)`.
type Grouping struct {
	Without bool
	Labels  []string
	Suffix  bool // rendering only: written after the operand instead of before it
}

// Comparison is `op scalar` applied to every sample of a vector; samples that fail are dropped.
type Comparison struct {
	Op      string // == != > >= < <=
	Val     float64
	ValText string // literal as written (rendering)
}

// RangeAgg is `fn(selector [range])`, optionally `fn by (..) (...)` for unwrapped aggregations.
//
//	log range functions:      rate count_over_time bytes_rate bytes_over_time
//	unwrapped range functions (the selector's last stage is Unwrap):
//	                          rate sum_over_time avg_over_time min_over_time max_over_time first_over_time last_over_time
type RangeAgg struct {
	Fn        string
	Sel       LogQuery
	RangeNs   int64
	RangeText string // e.g. "5s" (rendering); derived from RangeNs when empty
	Grouping  *Grouping
	Cmp       *Comparison
}

// VectorAgg is `fn [by|without (..)] (rangeAgg)`; Fn in sum min max avg count.
type VectorAgg struct {
	Fn       string
	Grouping *Grouping
	Inner    RangeAgg
	Cmp      *Comparison
}

// TopK is `topk(k, inner)` / `bottomk(k, inner)`.
type TopK struct {
	Bottom bool
	K      int
	Range  *RangeAgg
	Vector *VectorAgg
	Cmp    *Comparison
}

// Query is exactly one of the four forms.
type Query struct {
	Log    *LogQuery
	Range  *RangeAgg
	Vector *VectorAgg
	TopK   *TopK
}

// IsMetric reports whether the query yields a matrix.
func (q *Query) IsMetric() bool { return q.Log == nil }

// Selector returns the log selector at the bottom of the query.
func (q *Query) Selector() *LogQuery {
	switch {
	case q.Log != nil:
		return q.Log
	case q.Range != nil:
		return &q.Range.Sel
	case q.Vector != nil:
		return &q.Vector.Inner.Sel
	case q.TopK != nil:
		if q.TopK.Range != nil {
			return &q.TopK.Range.Sel
		}
		return &q.TopK.Vector.Inner.Sel
	}
	return nil
}

// ---------------------------------------------------------------------------------------------------------------
// rendering

// Quote renders a LogQL double-quoted string literal (JSON string syntax, which qryn's Unquote and Loki's
// strconv.Unquote both decode identically for the characters used here).
func Quote(s string) string {
	var b strings.Builder
	b.WriteByte('"')
	for _, r := range s {
		switch r {
		case '"':
			b.WriteString(`\"`)
		case '\\':
			b.WriteString(`\\`)
		case '\n':
			b.WriteString(`\n`)
		case '\t':
			b.WriteString(`\t`)
		case '\r':
			b.WriteString(`\r`)
		default:
			if r < 0x20 {
				fmt.Fprintf(&b, `\u%04x`, r)
			} else {
				b.WriteRune(r)
			}
		}
	}
	b.WriteByte('"')
	return b.String()
}

func (m Matcher) String() string { return m.Name + m.Op + Quote(m.Value) }

func (e *LabelExpr) String() string {
	switch e.Kind {
	case "cmp":
		if e.IsNum {
			t := e.NumText
			if t == "" {
				t = strconv.FormatFloat(e.Num, 'f', -1, 64)
			}
			return e.Name + " " + e.Op + " " + t
		}
		return e.Name + " " + e.Op + " " + Quote(e.Str)
	case "and", "or":
		return e.L.String() + " " + e.Kind + " " + e.R.String()
	case "paren":
		return "(" + e.L.String() + ")"
	}
	return "?"
}

func (s Stage) String() string {
	switch s.Kind {
	case LineFilter:
		return s.Op + " " + Quote(s.Value)
	case LabelFilter:
		return "| " + s.Filter.String()
	case JSON, Logfmt:
		name := "json"
		if s.Kind == Logfmt {
			name = "logfmt"
		}
		if len(s.Params) == 0 {
			return "| " + name
		}
		ps := make([]string, len(s.Params))
		for i, p := range s.Params {
			ps[i] = p.Name + "=" + Quote(p.Expr)
		}
		return "| " + name + " " + strings.Join(ps, ", ")
	case Regexp:
		return "| regexp " + Quote(s.Value)
	case LabelFormat:
		ps := make([]string, len(s.Formats))
		for i, f := range s.Formats {
			if f.IsConst {
				ps[i] = f.Dst + "=" + Quote(f.Const)
			} else {
				ps[i] = f.Dst + "=" + f.Src
			}
		}
		return "| label_format " + strings.Join(ps, ", ")
	case LineFormat:
		return "| line_format " + Quote(s.Value)
	case Drop:
		ps := make([]string, len(s.Drops))
		for i, d := range s.Drops {
			ps[i] = d.Name
			if d.HasValue {
				ps[i] += "=" + Quote(d.Value)
			}
		}
		return "| drop " + strings.Join(ps, ", ")
	case Unwrap:
		return "| unwrap " + s.Value
	}
	return "?"
}

func (q LogQuery) String() string {
	ms := make([]string, len(q.Matchers))
	for i, m := range q.Matchers {
		ms[i] = m.String()
	}
	out := "{" + strings.Join(ms, ", ") + "}"
	for _, s := range q.Stages {
		out += " " + s.String()
	}
	return out
}

func (g *Grouping) String() string {
	kw := "by"
	if g.Without {
		kw = "without"
	}
	return kw + " (" + strings.Join(g.Labels, ", ") + ")"
}

func (c *Comparison) String() string {
	t := c.ValText
	if t == "" {
		t = strconv.FormatFloat(c.Val, 'f', -1, 64)
	}
	return c.Op + " " + t
}

// DurationText renders nanoseconds in the largest LogQL unit that divides them.
func DurationText(ns int64) string {
	for _, u := range []struct {
		n int64
		s string
	}{{3600e9, "h"}, {60e9, "m"}, {1e9, "s"}, {1e6, "ms"}, {1e3, "us"}} {
		if ns%u.n == 0 {
			return strconv.FormatInt(ns/u.n, 10) + u.s
		}
	}
	return strconv.FormatInt(ns, 10) + "ns"
}

func (r RangeAgg) String() string {
	rt := r.RangeText
	if rt == "" {
		rt = DurationText(r.RangeNs)
	}
	out := r.Fn
	if r.Grouping != nil && !r.Grouping.Suffix {
		out += " " + r.Grouping.String() + " "
	}
	out += "(" + r.Sel.String() + " [" + rt + "])"
	if r.Grouping != nil && r.Grouping.Suffix {
		out += " " + r.Grouping.String()
	}
	if r.Cmp != nil {
		out += " " + r.Cmp.String()
	}
	return out
}

func (v VectorAgg) String() string {
	out := v.Fn
	if v.Grouping != nil && !v.Grouping.Suffix {
		out += " " + v.Grouping.String() + " "
	}
	out += "(" + v.Inner.String() + ")"
	if v.Grouping != nil && v.Grouping.Suffix {
		out += " " + v.Grouping.String()
	}
	if v.Cmp != nil {
		out += " " + v.Cmp.String()
	}
	return out
}

func (t TopK) String() string {
	fn := "topk"
	if t.Bottom {
		fn = "bottomk"
	}
	inner := ""
	if t.Range != nil {
		inner = t.Range.String()
	} else {
		inner = t.Vector.String()
	}
	out := fmt.Sprintf("%s(%d, %s)", fn, t.K, inner)
	if t.Cmp != nil {
		out += " " + t.Cmp.String()
	}
	return out
}

func (q Query) String() string {
	switch {
	case q.Log != nil:
		return q.Log.String()
	case q.Range != nil:
		return q.Range.String()
	case q.Vector != nil:
		return q.Vector.String()
	case q.TopK != nil:
		return q.TopK.String()
	}
	return ""
}

// ---------------------------------------------------------------------------------------------------------------
// label-set helpers

// Canon renders a label set canonically (sorted, quoted).  Labels with an empty value are omitted: in LogQL /
// Prometheus an empty label value is the same as the label being absent.
func Canon(l map[string]string) string {
	ks := make([]string, 0, len(l))
	for k, v := range l {
		if v != "" {
			ks = append(ks, k)
		}
	}
	sort.Strings(ks)
	var b strings.Builder
	b.WriteByte('{')
	for i, k := range ks {
		if i > 0 {
			b.WriteByte(',')
		}
		b.WriteString(k)
		b.WriteByte('=')
		b.WriteString(strconv.Quote(l[k]))
	}
	b.WriteByte('}')
	return b.String()
}

// CopyLabels returns a fresh copy.
func CopyLabels(l map[string]string) map[string]string {
	c := make(map[string]string, len(l)+2)
	for k, v := range l {
		c[k] = v
	}
	return c
}
