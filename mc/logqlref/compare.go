package logqlref

import (
	"fmt"
	"math"
	"sort"
	"strings"
)

// GotEntry is an entry produced by the implementation, in the implementation's output order.
type GotEntry struct {
	Labels map[string]string
	TS     int64
	Line   string
}

func entryKey(l map[string]string, ts int64, line string) string {
	return fmt.Sprintf("%s %d %q", Canon(StripErrorLabels(l)), ts, line)
}

// StripErrorLabels removes Loki's error-reporting labels (__error__, __error_details__): whether a parse failure
// is *reported* through them is not part of any property; the entry and its other labels are.
func StripErrorLabels(l map[string]string) map[string]string {
	if _, a := l["__error__"]; !a {
		if _, b := l["__error_details__"]; !b {
			return l
		}
	}
	c := CopyLabels(l)
	delete(c, "__error__")
	delete(c, "__error_details__")
	return c
}

// CompareLog checks an implementation's log-query answer against the reference: the multiset of
// (label set, timestamp, line) must be the reference's, where with a limit n>0 and more than n matches the
// answer must consist of n entries of the full result whose timestamps are the n newest (oldest when forward)
// - entries tying on the timestamp at the cut are interchangeable.  Order inside the answer is not compared.
// Returns "" when they agree, else a short description of the first difference.
func CompareLog(ref LogResult, got []GotEntry, limit int, forward bool) string {
	want := ref.Limited
	if limit <= 0 || len(ref.All) <= limit {
		return diffMultiset(want, got)
	}
	if len(got) != limit {
		return fmt.Sprintf("limit %d with %d matches: got %d entries", limit, len(ref.All), len(got))
	}
	// every returned entry must be a distinct member of the full result
	pool := map[string]int{}
	for _, e := range ref.All {
		pool[entryKey(e.Labels, e.TS, e.Line)]++
	}
	for _, g := range got {
		k := entryKey(g.Labels, g.TS, g.Line)
		if pool[k] == 0 {
			return "returned entry is not part of the full result: " + k
		}
		pool[k]--
	}
	// timestamps must be the n best ones
	wts := make([]int64, 0, limit)
	for _, e := range ref.All[:limit] {
		wts = append(wts, e.TS)
	}
	gts := make([]int64, 0, limit)
	for _, g := range got {
		gts = append(gts, g.TS)
	}
	sort.Slice(wts, func(i, j int) bool { return wts[i] < wts[j] })
	sort.Slice(gts, func(i, j int) bool { return gts[i] < gts[j] })
	for i := range wts {
		if wts[i] != gts[i] {
			dir := "newest"
			if forward {
				dir = "oldest"
			}
			return fmt.Sprintf("limit %d: returned timestamps %v are not the %s %v", limit, gts, dir, wts)
		}
	}
	return ""
}

func diffMultiset(want []OutEntry, got []GotEntry) string {
	w := map[string]int{}
	for _, e := range want {
		w[entryKey(e.Labels, e.TS, e.Line)]++
	}
	for _, g := range got {
		w[entryKey(g.Labels, g.TS, g.Line)]--
	}
	var missing, extra []string
	for k, n := range w {
		if n > 0 {
			missing = append(missing, k)
		} else if n < 0 {
			extra = append(extra, k)
		}
	}
	if len(missing) == 0 && len(extra) == 0 {
		return ""
	}
	sort.Strings(missing)
	sort.Strings(extra)
	return fmt.Sprintf("missing %d %s | unexpected %d %s", len(missing), head(missing), len(extra), head(extra))
}

func head(s []string) string {
	if len(s) > 2 {
		return strings.Join(s[:2], " ; ") + " ..."
	}
	return strings.Join(s, " ; ")
}

// GotSeries is a series produced by the implementation.
type GotSeries struct {
	Labels map[string]string
	Points []Point
}

// FloatEq compares with a relative tolerance of 1e-9 (sums may be accumulated in a different order).
func FloatEq(a, b float64) bool {
	if a == b || (math.IsNaN(a) && math.IsNaN(b)) {
		return true
	}
	d := math.Abs(a - b)
	return d <= 1e-9*math.Max(math.Abs(a), math.Abs(b))
}

// CompareMatrix checks (series label set, bucket, value) triples.  Series are matched by Canon(labels); when
// several series of one side carry the same label set they are compared as a multiset of point lists.
// Points flagged MayBeAbsent / ValueAmbiguous in the reference are treated accordingly.
func CompareMatrix(ref Matrix, got []GotSeries) string {
	type pl struct {
		pts []Point
	}
	w := map[string][]pl{}
	for _, s := range ref.Series {
		k := Canon(s.Labels)
		w[k] = append(w[k], pl{s.Points})
	}
	g := map[string][]pl{}
	for _, s := range got {
		k := Canon(StripErrorLabels(s.Labels))
		ps := append([]Point(nil), s.Points...)
		sort.SliceStable(ps, func(i, j int) bool { return ps[i].TS < ps[j].TS })
		g[k] = append(g[k], pl{ps})
	}
	var keys []string
	for k := range w {
		keys = append(keys, k)
	}
	for k := range g {
		if _, ok := w[k]; !ok {
			keys = append(keys, k)
		}
	}
	sort.Strings(keys)
	for _, k := range keys {
		ws, gs := w[k], g[k]
		if len(gs) == 0 {
			optional := true
			for _, s := range ws {
				for _, p := range s.pts {
					if !p.MayBeAbsent {
						optional = false
					}
				}
			}
			if optional {
				continue
			}
			return "missing series " + k + " " + ptsText(ws[0].pts)
		}
		if len(ws) == 0 {
			return "unexpected series " + k + " " + ptsText(gs[0].pts)
		}
		if len(ws) != len(gs) {
			return fmt.Sprintf("series %s: expected %d series with this label set, got %d", k, len(ws), len(gs))
		}
		// match each expected point list with some unused produced one
		used := make([]bool, len(gs))
		for _, s := range ws {
			ok := false
			var why string
			for j := range gs {
				if used[j] {
					continue
				}
				if why = diffPoints(s.pts, gs[j].pts); why == "" {
					used[j], ok = true, true
					break
				}
			}
			if !ok {
				return "series " + k + ": " + why
			}
		}
	}
	return ""
}

func ptsText(ps []Point) string {
	var b strings.Builder
	for i, p := range ps {
		if i > 0 {
			b.WriteByte(' ')
		}
		fmt.Fprintf(&b, "%d:%g", p.TS, p.V)
	}
	return "[" + b.String() + "]"
}

func diffPoints(want, got []Point) string {
	gi := 0
	for _, p := range want {
		if gi < len(got) && got[gi].TS == p.TS {
			if !p.ValueAmbiguous && !FloatEq(p.V, got[gi].V) {
				return fmt.Sprintf("bucket %d: expected %g got %g (expected %s got %s)", p.TS, p.V, got[gi].V,
					ptsText(want), ptsText(got))
			}
			gi++
			continue
		}
		if p.MayBeAbsent {
			continue
		}
		return fmt.Sprintf("bucket %d missing: expected %s got %s", p.TS, ptsText(want), ptsText(got))
	}
	if gi < len(got) {
		return fmt.Sprintf("unexpected bucket %d: expected %s got %s", got[gi].TS, ptsText(want), ptsText(got))
	}
	return ""
}
