package inslib

import (
	"encoding/json"
	"fmt"
	"os"
	"runtime"
	"runtime/pprof"
	"strings"
	"time"

	"verif/mc/ev"
	"verif/mc/sched"
)

// Scenarios returns the workload/configuration alphabet of a tier.
func Scenarios(thorough bool) []sched.Scenario {
	initGlobals() // scans the error-text menu (ErrTexts) from the tree under test
	var out []sched.Scenario
	add := func(c Cfg) { out = append(out, &Scenario{C: c}) }
	// the text of a database failure is part of the fault: one small scenario per text of the menu and retry setting
	for k := 1; k < len(ErrTexts); k++ {
		for _, retry := range []int{1, 2} {
			add(Cfg{Kind: "loki", Parallel: 1, MaxQueue: 0, Retry: retry, Reqs: 1, Chunks: 1, Rows: 1, ErrKind: k})
		}
	}
	for _, kind := range []string{"loki", "tempo"} {
		// one request: every retry / chunking / trigger combination
		for _, retry := range []int{1, 2} {
			for _, chunks := range []int{1, 2} {
				for _, q := range []int64{0, 50} {
					add(Cfg{Kind: kind, Parallel: 1, MaxQueue: q, Retry: retry, Reqs: 1, Chunks: chunks, Rows: 1})
				}
			}
		}
		// two concurrent requests sharing batches
		for _, par := range []int{1, 2} {
			for _, q := range []int64{0, 50, 250} { // never / every request / the second request crosses the size trigger
				add(Cfg{Kind: kind, Parallel: par, MaxQueue: q, Retry: 1, Reqs: 2, Chunks: 1, Rows: 2})
			}
		}
		add(Cfg{Kind: kind, Parallel: 1, MaxQueue: 0, Retry: 2, Reqs: 2, Chunks: 1, Rows: 1})
		add(Cfg{Kind: kind, Parallel: 1, MaxQueue: 0, Retry: 1, Reqs: 1, Chunks: 1, Rows: 2, Flusher: true})
		add(Cfg{Kind: kind, Parallel: 1, MaxQueue: 150, Retry: 1, Reqs: 2, Chunks: 1, Rows: 1, Flusher: true})
		if thorough {
			add(Cfg{Kind: kind, Parallel: 2, MaxQueue: 150, Retry: 2, Reqs: 2, Chunks: 2, Rows: 1})
			add(Cfg{Kind: kind, Parallel: 1, MaxQueue: 150, Retry: 1, Reqs: 3, Chunks: 1, Rows: 1})
			add(Cfg{Kind: kind, Parallel: 2, MaxQueue: 0, Retry: 3, Reqs: 2, Chunks: 1, Rows: 1, Flusher: true})
		}
	}
	// the real Loki JSON decoder and parser goroutine in front of the handler core: a push that the parser splits into
	// two portions at its 1 MiB limit (row identity = timestamp + line)
	for _, retry := range []int{1, 2} {
		add(Cfg{Kind: "lokireal", Parallel: 1, MaxQueue: 0, Retry: retry, Reqs: 1, Chunks: 2, Rows: 2})
	}
	if thorough {
		add(Cfg{Kind: "lokireal", Parallel: 1, MaxQueue: 0, Retry: 2, Reqs: 1, Chunks: 3, Rows: 1})
		add(Cfg{Kind: "lokireal", Parallel: 2, MaxQueue: 50, Retry: 2, Reqs: 2, Chunks: 2, Rows: 1})
	}
	// profiles: one table, one profile per request
	for _, retry := range []int{1, 2} {
		add(Cfg{Kind: "profile", Parallel: 1, MaxQueue: 0, Retry: retry, Reqs: 1, Chunks: 1, Rows: 1})
	}
	add(Cfg{Kind: "profile", Parallel: 1, MaxQueue: 150, Retry: 1, Reqs: 2, Chunks: 1, Rows: 1})
	add(Cfg{Kind: "profile", Parallel: 2, MaxQueue: 50, Retry: 1, Reqs: 2, Chunks: 1, Rows: 1})
	add(Cfg{Kind: "profile", Parallel: 1, MaxQueue: 0, Retry: 1, Reqs: 2, Chunks: 1, Rows: 1, Flusher: true})
	return out
}

func lookup(name string) sched.Scenario {
	for _, s := range Scenarios(true) {
		if s.Name() == name {
			return s
		}
	}
	return nil
}

// Main is the entry point shared by cmd/c01 and cmd/c02.
func Main(prop string) {
	Which = prop
	if sched.IsWorker() {
		sched.WorkerMain(lookup)
		return
	}
	if pf := os.Getenv("VERIF_PROFILE"); pf != "" {
		f, _ := os.Create(pf)
		pprof.StartCPUProfile(f)
		sc := Scenarios(false)[0]
		t0 := time.Now()
		st, _ := sched.ExploreLocal(sc, sched.Bounds{Preempt: 2, Faults: 1, Horizon: 4000}, sched.Item{Scn: sc.Name()}, 1500, time.Time{})
		pprof.StopCPUProfile()
		fmt.Println("profile:", st.Executions, "executions", time.Since(t0))
		return
	}
	r := ev.Start(prop, "model_checking", 75*time.Second, 18*time.Minute)
	r.Rule = "stateless DFS over choice sequences of the controlled scheduler (engine E1) on the real InsertServiceV2 / promise / doParse+doPush code; " +
		"a case = one complete execution (interleaving x INSERT/connect outcomes x early timer firings) of one scenario (table kind x parallel workers x max queue size x retry attempts x requests x chunks x rows x forced flush); " +
		"distinct_nontrivial = distinct observed outcome classes (request answers x INSERT outcomes x connects)"
	r.Assumptions = []string{
		"sequentially consistent interleavings at statement granularity outside critical sections and at every lock/atomic/channel/context/timer operation of the instrumented files; data races inside uninstrumented code are not explored",
		"virtual time: timers fire when every thread is blocked, or early as a deviation charged to the fault budget",
		"retry delay 0; rand source of the round-robin service seeded from virtual time (deterministic)",
	}
	if r.Replay != "" {
		replay(r, prop)
		return
	}
	scs := Scenarios(r.Thorough())
	workers := runtime.NumCPU()
	// passes: iterate the bound (simplest first); each pass is exhaustive within its bounds or reported as cut
	type pass struct {
		Name string
		B    sched.Bounds
		Only func(c Cfg) bool // nil = every scenario
	}
	par1 := func(c Cfg) bool { return c.Parallel == 1 }
	oneReq := func(c Cfg) bool { return c.Reqs == 1 && c.Retry >= 2 }
	H := 4000
	passes := []pass{
		{"sync-points P<=1 F<=1", sched.Bounds{Preempt: 1, Faults: 1, Horizon: H, NoYields: true}, nil},
		{"sync-points P<=0 F<=3", sched.Bounds{Preempt: 0, Faults: 3, Horizon: H, NoYields: true}, nil},
		{"sync-points P<=1 F<=2 (1 request, 2 attempts)", sched.Bounds{Preempt: 1, Faults: 2, Horizon: H, NoYields: true}, oneReq},
		{"statement-points P<=1 F<=1 (1 insert worker)", sched.Bounds{Preempt: 1, Faults: 1, Horizon: H}, par1},
	}
	if r.Thorough() {
		passes = append(passes,
			pass{"sync-points P<=2 F<=0 (1 insert worker)", sched.Bounds{Preempt: 2, Faults: 0, Horizon: H, NoYields: true}, par1},
			pass{"statement-points P<=1 F<=1", sched.Bounds{Preempt: 1, Faults: 1, Horizon: H}, nil},
			pass{"sync-points P<=2 F<=1", sched.Bounds{Preempt: 2, Faults: 1, Horizon: H, NoYields: true}, nil},
			pass{"sync-points P<=1 F<=2", sched.Bounds{Preempt: 1, Faults: 2, Horizon: H, NoYields: true}, nil},
			pass{"sync-points P<=1 F<=1 T<=1", sched.Bounds{Preempt: 1, Faults: 1, Timers: 1, Horizon: H, NoYields: true}, nil},
			pass{"statement-points P<=2 F<=1", sched.Bounds{Preempt: 2, Faults: 1, Horizon: H}, nil},
			pass{"sync-points P<=2 F<=2", sched.Bounds{Preempt: 2, Faults: 2, Horizon: H, NoYields: true}, nil},
			pass{"sync-points P<=3 F<=1", sched.Bounds{Preempt: 3, Faults: 1, Horizon: H, NoYields: true}, nil},
		)
	}
	total := &sched.Stats{Outcomes: map[string]int64{}, PerScn: map[string]int64{}}
	var passReport []map[string]any
	completed := 0
	for pi, p := range passes {
		if only := os.Getenv("VERIF_PASS"); only != "" && !strings.Contains(p.Name, only) {
			// development aid: run a single pass; the run is reported as not exhaustive
			r.Cap("pass skipped by VERIF_PASS: " + p.Name)
			continue
		}
		if time.Now().After(r.Deadline) || len(total.Violations) >= 25 {
			passReport = append(passReport, map[string]any{"pass": p.Name, "bounds": p.B, "completed": false, "executions": 0})
			r.Cap("pass not started: " + p.Name)
			continue
		}
		t0 := time.Now()
		sel := scs
		if p.Only != nil {
			sel = nil
			for _, sc := range scs {
				if p.Only(sc.(*Scenario).C) {
					sel = append(sel, sc)
				}
			}
		}
		// fair share of what is left of the budget: on a loaded machine an early pass must not starve the later ones
		// (each finds different things); a pass that finishes early leaves its share to the rest
		passDeadline := r.Deadline
		if rest := len(passes) - pi; rest > 1 {
			passDeadline = time.Now().Add(time.Until(r.Deadline) / time.Duration(rest))
		}
		st, exhaustive, left := sched.Explore(sel, p.B, workers, passDeadline, 25)
		passReport = append(passReport, map[string]any{"pass": p.Name, "bounds": p.B, "completed": exhaustive, "executions": st.Executions,
			"subtrees_left": left, "wall_s": time.Since(t0).Seconds(), "distinct_outcomes": len(st.Outcomes), "max_decision_points": st.MaxPoints, "scenarios": len(sel)})
		fmt.Printf("[%s] pass %-28s executions=%-8d outcomes=%-3d completed=%v left=%d %.1fs\n", prop, p.Name, st.Executions, len(st.Outcomes), exhaustive, left, time.Since(t0).Seconds())
		if exhaustive {
			completed++
		} else {
			r.Cap(fmt.Sprintf("pass cut by the deadline: %s (%d subtrees unexplored)", p.Name, left))
		}
		total.Merge(st)
	}
	st := total
	if st.Diverged > 0 || st.Unreproducible > 0 {
		r.Cap(fmt.Sprintf("%d executions diverged from their prefix and %d findings did not reproduce (uncaptured nondeterminism; nothing was concluded from them): %v", st.Diverged, st.Unreproducible, st.Notes))
	}
	r.Extra["diverged_executions"], r.Extra["unreproducible_findings"] = st.Diverged, st.Unreproducible
	r.AddEval(st.Executions)
	r.States = st.Points // decision states visited
	r.Transitions = st.Steps
	r.TracesValidated = st.Executions
	for k, n := range st.Outcomes {
		r.Distinct(k)
		r.Extra["outcome:"+k] = n
	}
	r.Extra["passes"] = passReport
	r.Extra["passes_completed"] = completed
	r.Extra["scenarios"] = len(scs)
	r.Extra["alternatives_beyond_bounds"] = st.Pruned
	r.Extra["max_decision_points_in_one_execution"] = st.MaxPoints
	r.Extra["explanation"] = "states = scheduler decision points visited, transitions = scheduling steps executed, traces_validated_against_impl = complete executions of the real code (there is no separate model: the implementation itself is explored)"
	for i, s := range scs {
		if i%5 == 0 {
			r.Sample(map[string]any{"scenario": s.Name()})
		}
	}
	for _, v := range st.Violations {
		r.Violate(v.Class, v.Scn+": "+v.What, v)
	}
	r.Finish()
}

func replay(r *ev.Run, prop string) {
	raw, err := os.ReadFile(r.Replay)
	if err != nil {
		ev.Fatal("replay: %v", err)
	}
	var doc struct {
		Replay sched.Replay `json:"replay"`
	}
	if err := json.Unmarshal(raw, &doc); err != nil {
		ev.Fatal("replay: %v", err)
	}
	sc := lookup(doc.Replay.Scn)
	if sc == nil {
		ev.Fatal("replay: unknown scenario %q", doc.Replay.Scn)
	}
	res, outcome, fs := sched.RunOne(sc, doc.Replay.Bounds, doc.Replay.Choices, true)
	fmt.Println(strings.Join(res.Trace, "\n"))
	fmt.Println("outcome:", outcome, "failure:", res.Failure)
	free, paid := 0, 0
	for _, p := range res.Points {
		if p.Kind == 0 && !p.FromEnabled {
			free += int(p.N) - 1
		} else {
			paid += int(p.N) - 1
		}
	}
	fmt.Println("points:", len(res.Points), "free alternatives:", free, "paid alternatives:", paid)
	r.AddEval(1)
	r.States, r.Transitions, r.TracesValidated = int64(len(res.Points)), int64(res.Steps), 1
	for _, f := range fs {
		r.Violate(f.Class, f.What, doc.Replay)
	}
	r.Finish()
}
