// Package inslib is the closed-system driver for properties C01 and C02: the real insert services, promises and
// handler core (instrumented through the overlay) over a fake ClickHouse client, explored by engine E1.
package inslib

import (
	"context"
	"errors"
	"fmt"
	"go/ast"
	"go/parser"
	"go/token"
	"io"
	"net/http"
	"net/http/httptest"
	"os"
	"path/filepath"
	"reflect"
	"sort"
	"strconv"
	"strings"
	"time"
	"unsafe"

	ch "github.com/ClickHouse/ch-go"
	"github.com/ClickHouse/ch-go/proto"
	clconfig "github.com/metrico/cloki-config"
	clcfg "github.com/metrico/cloki-config/config"
	"github.com/metrico/qryn/writer/ch_wrapper"
	"github.com/metrico/qryn/writer/config"
	controllerv1 "github.com/metrico/qryn/writer/controller"
	"github.com/metrico/qryn/writer/model"
	"github.com/metrico/qryn/writer/service"
	"github.com/metrico/qryn/writer/service/impl"
	"github.com/metrico/qryn/writer/utils/helpers"
	"github.com/metrico/qryn/writer/utils/logger"
	"github.com/metrico/qryn/writer/utils/numbercache"
	"github.com/metrico/qryn/writer/utils/promise"
	"github.com/metrico/qryn/writer/utils/unmarshal"

	"verif/mc/ev"
	"verif/mc/sched"
)

// ---------------------------------------------------------------------------------------------------
// row identities: every submitted row has a small unique id (< 120) written into every one of its fields

var dateBase = time.Date(2000, 1, 1, 12, 0, 0, 0, time.UTC)

const dateBaseDays = 10957 // 2000-01-01 in days since 1970-01-01

func idStr(id int) string { return "id" + strconv.Itoa(id) + ";" }

func idBytes(id, n int) []byte {
	b := make([]byte, n)
	for i := range b {
		b[i] = 0xA0
	}
	b[n-1] = byte(id)
	return b
}

func mkSamples(ids []int) *model.TimeSamplesData {
	d := &model.TimeSamplesData{}
	for _, id := range ids {
		d.MFingerprint = append(d.MFingerprint, uint64(id))
		d.MTimestampNS = append(d.MTimestampNS, int64(id))
		d.MMessage = append(d.MMessage, idStr(id))
		d.MValue = append(d.MValue, float64(id))
		d.MType = append(d.MType, uint8(id))
		d.MTTLDays = append(d.MTTLDays, uint16(id))
	}
	d.Size = 100 * len(ids)
	return d
}

func mkSeries(ids []int) *model.TimeSeriesData {
	d := &model.TimeSeriesData{}
	for _, id := range ids {
		d.MDate = append(d.MDate, dateBase.AddDate(0, 0, id))
		d.MLabels = append(d.MLabels, idStr(id))
		d.MFingerprint = append(d.MFingerprint, uint64(id))
		d.MType = append(d.MType, uint8(id))
		d.MTTLDays = append(d.MTTLDays, uint16(id))
	}
	d.Size = 100 * len(ids)
	return d
}

func mkSpans(ids []int) *model.TempoSamples {
	d := &model.TempoSamples{}
	for _, id := range ids {
		d.MTraceId = append(d.MTraceId, idBytes(id, 16))
		d.MSpanId = append(d.MSpanId, idBytes(id, 8))
		d.MTimestampNs = append(d.MTimestampNs, int64(id))
		d.MDurationNs = append(d.MDurationNs, int64(id))
		d.MParentId = append(d.MParentId, idStr(id))
		d.MName = append(d.MName, idStr(id))
		d.MServiceName = append(d.MServiceName, idStr(id))
		d.MPayloadType = append(d.MPayloadType, int8(id))
		d.MPayload = append(d.MPayload, []byte(idStr(id)))
	}
	d.Size = 100 * len(ids)
	return d
}

func mkProfile(ids []int) *model.ProfileData {
	if len(ids) != 1 {
		panic(sched.HarnessError{Msg: "profile requests carry one profile (the parsers emit one per body)"})
	}
	id := ids[0]
	s := idStr(id)
	return &model.ProfileData{
		TimestampNs: []uint64{uint64(id)}, Ptype: []string{s}, ServiceName: []string{s}, PeriodType: []string{s}, PeriodUnit: []string{s},
		DurationNs: []uint64{uint64(id)}, PayloadType: []string{s}, Payload: [][]byte{[]byte(s)},
		SamplesTypesUnits: []model.StrStr{{Str1: s, Str2: s}}, Tags: []model.StrStr{{Str1: s, Str2: s}, {Str1: s, Str2: s}},
		ValuesAgg: []model.ValuesAgg{{ValueStr: s, ValueInt64: int64(id), ValueInt32: int32(id)}},
		Tree: []model.TreeRootStructure{{Field1: uint64(id), Field2: uint64(id), Field3: uint64(id),
			ValueArrTuple: []model.ValuesArrTuple{{ValueStr: s, FirstValueInt64: int64(id), SecondValueInt64: int64(id)}}}},
		Function: []model.Function{{ValueInt64: uint64(id), ValueStr: s}},
		Size:     100,
	}
}

func mkTags(ids []int) *model.TempoTag {
	d := &model.TempoTag{}
	for _, id := range ids {
		d.MTraceId = append(d.MTraceId, idBytes(id, 16))
		d.MSpanId = append(d.MSpanId, idBytes(id, 8))
		d.MTimestampNs = append(d.MTimestampNs, int64(id))
		d.MDurationNs = append(d.MDurationNs, int64(id))
		d.MDate = append(d.MDate, dateBase.AddDate(0, 0, id))
		d.MKey = append(d.MKey, idStr(id))
		d.MVal = append(d.MVal, idStr(id))
	}
	d.Size = 100 * len(ids)
	return d
}

// idOf extracts the row id from one decoded field value; ok=false when the value carries no id (empty array).
func idOf(v reflect.Value) (int, bool, error) {
	if t, ok := v.Interface().(time.Time); ok {
		d := int(t.UTC().Unix()/86400) - dateBaseDays
		return d, true, nil
	}
	switch v.Kind() {
	case reflect.Uint8, reflect.Uint16, reflect.Uint32, reflect.Uint64, reflect.Uint:
		if v.Type() == reflect.TypeOf(proto.Date(0)) {
			return int(v.Uint()) - dateBaseDays, true, nil
		}
		return int(v.Uint()), true, nil
	case reflect.Int8, reflect.Int16, reflect.Int32, reflect.Int64, reflect.Int:
		return int(v.Int()), true, nil
	case reflect.Float32, reflect.Float64:
		return int(v.Float()), true, nil
	case reflect.String:
		s := v.String()
		// "id<n>;" optionally followed by padding dots (long lines of the real-parser scenarios)
		s = strings.TrimRight(s, ".")
		if !strings.HasPrefix(s, "id") || !strings.HasSuffix(s, ";") {
			return 0, false, fmt.Errorf("string field %.40q is not one submitted value", s)
		}
		n, err := strconv.Atoi(s[2 : len(s)-1])
		if err != nil {
			return 0, false, fmt.Errorf("string field %.40q is not one submitted value", s)
		}
		return n, true, nil
	case reflect.Slice:
		if v.Type().Elem().Kind() == reflect.Uint8 {
			b := v.Bytes()
			if len(b) == 0 {
				return 0, false, fmt.Errorf("empty bytes field")
			}
			if b[0] == 'i' { // payload bytes "id<n>;"
				return idOf(reflect.ValueOf(string(b)))
			}
			for _, x := range b[:len(b)-1] {
				if x != 0xA0 {
					return 0, false, fmt.Errorf("bytes field % x is not one submitted value", b)
				}
			}
			return int(b[len(b)-1]), true, nil
		}
		// array column: every element must belong to the same submitted row
		rid, have := 0, false
		for i := 0; i < v.Len(); i++ {
			id, ok, err := idOf(v.Index(i))
			if err != nil {
				return 0, false, err
			}
			if !ok {
				continue
			}
			if have && id != rid {
				return 0, false, fmt.Errorf("array field mixes submitted rows %d and %d", rid, id)
			}
			rid, have = id, true
		}
		return rid, have, nil
	case reflect.Struct:
		rid, have := 0, false
		for i := 0; i < v.NumField(); i++ {
			id, ok, err := idOf(v.Field(i))
			if err != nil {
				return 0, false, err
			}
			if !ok {
				continue
			}
			if have && id != rid {
				return 0, false, fmt.Errorf("tuple field mixes submitted rows %d and %d", rid, id)
			}
			rid, have = id, true
		}
		return rid, have, nil
	}
	panic(sched.HarnessError{Msg: "idOf: unsupported field kind " + v.Type().String()})
}

// ---------------------------------------------------------------------------------------------------
// observation log

// Block is one decoded INSERT.
type Block struct {
	Seq      int
	Query    string
	ColRows  []int
	ColNames []string
	RowIDs   []int    // id of each row (-1 when the row's fields disagree)
	Problems []string // decoding problems (non-rectangular, mixed row, ...)
	Err      error
	DoneSeq  int // position in the observation order at which the INSERT returned (0 = still in flight)
}

// Attempt is one call of Request on an insert service (through the recording proxy).
type Attempt struct {
	Seq     int // order among attempts and blocks
	Table   string
	IDs     []int
	Req     any // the request object (a retry re-submits the same object)
	Promise *promise.Promise[uint32]
}

// ReqStatus is the answer one request thread got.
type ReqStatus struct {
	AnswerSeq int // position in the observation order of the (first) answer
	Answers   int
	Code      int  // HTTP status the client received (implicit 200 when the handler wrote nothing)
	OK        bool // 2xx: the write was acknowledged
	IDs       []int
}

// World is everything observed in one execution.
type World struct {
	seq      int
	Blocks   []*Block
	Attempts []*Attempt
	Status   []*ReqStatus
	Connects int
	idsOf    map[any][]int
	// real-parser scenarios: rows come out of the real decoder, only these columns carry the row identity
	// (nil = every column does) and the ids of a request are read off the request object when it is submitted
	idCols map[string]bool
}

// injectedErr is what the fake database answers when the explorer decides an INSERT (or connect) fails.  Its TEXT is
// drawn from ErrTexts: the handler maps errors to HTTP answers partly by their text, so the text is part of the fault.
type injectedErr struct{ text string }

func (e *injectedErr) Error() string { return e.text }

func isInjected(err error) bool {
	var ie *injectedErr
	if errors.As(err, &ie) {
		return true
	}
	if err == nil {
		return false
	}
	for _, t := range ErrTexts {
		if strings.Contains(err.Error(), t) {
			return true
		}
	}
	return strings.Contains(err.Error(), "injected")
}

// ErrTexts is the menu of error texts of an injected database failure: a generic ClickHouse exception first, then one
// text per string literal that the writer's controller package compares error texts with (scanned from the tree under
// test with go/ast: arguments of strings.HasPrefix/HasSuffix/Contains/EqualFold and operands of ==/!= next to an
// .Error() call), bare and embedded.  Cfg.ErrKind indexes it.
var ErrTexts = []string{"code: 999, message: injected INSERT failure"}

func scanErrTexts() {
	dir := filepath.Join(ev.Repo(), "writer", "controller")
	fset := token.NewFileSet()
	pkgs, err := parser.ParseDir(fset, dir, func(fi os.FileInfo) bool { return !strings.HasSuffix(fi.Name(), "_test.go") }, 0)
	if err != nil {
		panic(sched.HarnessError{Msg: "scan of writer/controller: " + err.Error()})
	}
	seen := map[string]bool{}
	var lits []string
	add := func(e ast.Expr) {
		if bl, ok := e.(*ast.BasicLit); ok && bl.Kind == token.STRING {
			if v, err := strconv.Unquote(bl.Value); err == nil && len(v) >= 3 && !seen[v] {
				seen[v] = true
				lits = append(lits, v)
			}
		}
	}
	mentionsErrorText := func(n ast.Node) bool {
		found := false
		ast.Inspect(n, func(m ast.Node) bool {
			if c, ok := m.(*ast.CallExpr); ok {
				if se, ok := c.Fun.(*ast.SelectorExpr); ok && se.Sel.Name == "Error" && len(c.Args) == 0 {
					found = true
				}
			}
			return !found
		})
		return found
	}
	var names []string
	for n := range pkgs {
		names = append(names, n)
	}
	sort.Strings(names)
	for _, pn := range names {
		var files []string
		for fn := range pkgs[pn].Files {
			files = append(files, fn)
		}
		sort.Strings(files)
		for _, fn := range files {
			ast.Inspect(pkgs[pn].Files[fn], func(n ast.Node) bool {
				switch x := n.(type) {
				case *ast.CallExpr:
					if se, ok := x.Fun.(*ast.SelectorExpr); ok {
						if id, ok := se.X.(*ast.Ident); ok && id.Name == "strings" && mentionsErrorText(x) {
							for _, a := range x.Args {
								add(a)
							}
						}
					}
				case *ast.BinaryExpr:
					if (x.Op == token.EQL || x.Op == token.NEQ) && mentionsErrorText(x) {
						add(x.X)
						add(x.Y)
					}
				}
				return true
			})
		}
	}
	for _, l := range lits {
		ErrTexts = append(ErrTexts, l, "read tcp 10.0.0.1:9000: "+l+" (peer)")
	}
}

type fakeClient struct {
	ch_wrapper.IChClient
	w       *World
	closed  bool
	errText string
}

func (c *fakeClient) Ping(ctx context.Context) error { return nil }
func (c *fakeClient) Close() error                  { c.closed = true; return nil }

func (c *fakeClient) Do(ctx context.Context, q ch.Query) error {
	w := c.w
	sched.Op(sched.OpYield) // the request is on the wire: everything else may run
	w.seq++
	b := &Block{Seq: w.seq, Query: q.Body}
	decodeBlock(b, q.Input, w.idCols)
	w.Blocks = append(w.Blocks, b)
	// the database decides the outcome
	switch sched.Choose("insert", 3, true) {
	case 1:
		b.Err = &injectedErr{c.errText}
	case 2:
		// slow database: nothing comes back until the write timeout of the request context expires
		if ctx.Done() == nil {
			panic(sched.HarnessError{Msg: "INSERT context has no deadline"})
		}
		sched.Recv(ctx.Done())
		b.Err = fmt.Errorf("injected slow INSERT #%d: %w", b.Seq, context.DeadlineExceeded)
	}
	sched.Op(sched.OpYield)
	w.seq++
	b.DoneSeq = w.seq
	return b.Err
}

func decodeBlock(b *Block, in proto.Input, idCols map[string]bool) {
	rows := -1
	type col struct {
		name string
		v    reflect.Value
		n    int
	}
	var cols []col
	for _, ic := range in {
		n := ic.Data.Rows()
		b.ColRows = append(b.ColRows, n)
		b.ColNames = append(b.ColNames, ic.Name)
		cols = append(cols, col{ic.Name, reflect.ValueOf(ic.Data), n})
		if rows == -1 {
			rows = n
		} else if n != rows {
			rows = -2
		}
	}
	if rows == -2 {
		b.Problems = append(b.Problems, fmt.Sprintf("non-rectangular block: columns %v have %v rows", b.ColNames, b.ColRows))
		return
	}
	if rows <= 0 {
		b.Problems = append(b.Problems, "empty block sent")
		return
	}
	for i := 0; i < rows; i++ {
		rowID := -2
		for _, c := range cols {
			if idCols != nil && !idCols[c.name] {
				continue
			}
			m := c.v.MethodByName("Row")
			if !m.IsValid() {
				b.Problems = append(b.Problems, "column type without Row(): "+c.v.Type().String())
				return
			}
			out := m.Call([]reflect.Value{reflect.ValueOf(i)})
			id, ok, err := idOf(out[0])
			if err != nil {
				b.Problems = append(b.Problems, fmt.Sprintf("row %d column %s: %v", i, c.name, err))
				rowID = -1
				break
			}
			if !ok {
				continue
			}
			if rowID == -2 {
				rowID = id
			} else if rowID != id {
				b.Problems = append(b.Problems, fmt.Sprintf("row %d mixes fields of submitted rows %d and %d (column %s)", i, rowID, id, c.name))
				rowID = -1
				break
			}
		}
		b.RowIDs = append(b.RowIDs, rowID)
	}
}

// recording proxy around an insert service
type proxy struct {
	service.IInsertServiceV2
	w     *World
	table string
}

func (p *proxy) Request(req helpers.SizeGetter, mode int) *promise.Promise[uint32] {
	ids := p.w.idsOf[req]
	if p.w.idCols != nil {
		if spl, ok := req.(*model.TimeSamplesData); ok {
			// what the decoder put into this chunk, as it is at the moment of submission
			for _, ts := range spl.MTimestampNS {
				ids = append(ids, int(ts))
			}
		}
	}
	pr := p.IInsertServiceV2.Request(req, mode)
	p.w.seq++
	p.w.Attempts = append(p.w.Attempts, &Attempt{Seq: p.w.seq, Table: p.table, IDs: ids, Req: req, Promise: pr})
	return pr
}

// ---------------------------------------------------------------------------------------------------
// scenarios

// Cfg is one point of the configuration / workload alphabet.
type Cfg struct {
	Kind     string `json:"kind"`      // loki (time_series+samples) | tempo (traces+tags)
	Parallel int    `json:"parallel"`  // number of parallel insert workers per service
	MaxQueue int64  `json:"max_queue"` // 0 = no size trigger; small = every request crosses it
	Retry    int    `json:"retry"`     // retry attempts
	Reqs     int    `json:"reqs"`      // concurrent requests
	Chunks   int    `json:"chunks"`    // parser chunks per request
	Rows     int    `json:"rows"`      // rows per chunk and table
	Flusher  bool   `json:"flusher"`   // an extra thread forcing PlanFlush at an arbitrary moment
	ErrKind  int    `json:"err_kind"`  // index into ErrTexts: the text of every injected INSERT failure of the execution
}

func (c Cfg) Name() string {
	n := fmt.Sprintf("%s/par%d/q%d/retry%d/reqs%d/chunks%d/rows%d/flush%v", c.Kind, c.Parallel, c.MaxQueue, c.Retry, c.Reqs, c.Chunks, c.Rows, c.Flusher)
	if c.ErrKind != 0 {
		n += fmt.Sprintf("/err%d", c.ErrKind)
	}
	return n
}

type stubCache struct{}

func (stubCache) CheckAndSet(uint64) bool               { return false }
func (s stubCache) DB(string) numbercache.ICache[uint64] { return s }

var inited bool

// ShrinkPools is set by the optional overlay (build tag verifopt): it lowers the initial capacity of pooled columns,
// which only makes executions cheaper.  Without it the production capacities are used.
var ShrinkPools func()

func initGlobals() {
	if inited {
		return
	}
	inited = true
	time.Local = time.UTC
	logger.Logger.SetOutput(io.Discard)
	config.Cloki = &clconfig.ClokiConfig{Setting: &clcfg.ClokiBaseSettingServer{}}
	service.CreateColPools(0)
	if ShrinkPools != nil {
		ShrinkPools()
	}
	scanErrTexts()
	controllerv1.FPCache = stubCache{}
}


// buildHandler is the real handler chain: Build -> PusherCtx.Do -> parser entry (doParse) -> post-request status
// writer, errors through the real ErrorHandler.  The two options are withSimpleParser("*", parser) and
// withOkStatusAndBody(204, nil) written with the exported API, so that only doParse needs an overlay export.
func buildHandler(parser controllerv1.Parser) func(http.ResponseWriter, *http.Request) {
	return controllerv1.Build(
		func(ctx *controllerv1.PusherCtx) *controllerv1.PusherCtx {
			ctx.Parser["*"] = func(_ http.ResponseWriter, r *http.Request) error { return controllerv1.VerifDoParse(r, parser) }
			return ctx
		},
		func(ctx *controllerv1.PusherCtx) *controllerv1.PusherCtx {
			ctx.PostRequest = append(ctx.PostRequest, func(w http.ResponseWriter, _ *http.Request) error {
				w.WriteHeader(http.StatusNoContent)
				return nil
			})
			return ctx
		})
}

// serve is one request thread: what the client gets is the acknowledgement.
func serve(w *World, st *ReqStatus, handler func(http.ResponseWriter, *http.Request), req *http.Request) {
	rec := httptest.NewRecorder()
	handler(rec, req)
	w.seq++
	if st.Answers == 0 {
		st.AnswerSeq = w.seq
	}
	st.Answers++
	st.Code = rec.Code // 200 when nothing was written, exactly what net/http would send
	st.OK = rec.Code >= 200 && rec.Code < 300
}

// Scenario implements sched.Scenario.
type Scenario struct{ C Cfg }

func (s *Scenario) Name() string { return s.C.Name() }

func (s *Scenario) Run() any {
	initGlobals()
	c := s.C
	config.Cloki.Setting.SYSTEM_SETTINGS.RetryAttempts = c.Retry
	config.Cloki.Setting.SYSTEM_SETTINGS.RetryTimeoutS = 0
	w := &World{idsOf: map[any][]int{}}
	factory := func() (ch_wrapper.IChClient, error) {
		w.Connects++
		if sched.Choose("connect", 2, true) == 1 {
			return nil, &injectedErr{"dial tcp 10.0.0.1:9000: connect: connection refused"}
		}
		if c.ErrKind < 0 || c.ErrKind >= len(ErrTexts) {
			panic(sched.HarnessError{Msg: fmt.Sprintf("scenario asks for error text %d, the menu has %d", c.ErrKind, len(ErrTexts))})
		}
		return &fakeClient{w: w, errText: ErrTexts[c.ErrKind]}, nil
	}
	node := &model.DataDatabasesMap{}
	node.Node = "n1"
	node.WriteTimeout = 30
	opts := func(before func()) model.InsertServiceOpts {
		return model.InsertServiceOpts{Session: factory, Node: node, Interval: 5 * time.Second,
			MaxQueueSize: c.MaxQueue, ParallelNum: c.Parallel, OnBeforeInsert: before}
	}
	var svcA, svcB service.IInsertServiceV2 // A: index-like table flushed before B's insert
	var keyA, keyB, tabA, tabB string
	switch c.Kind {
	case "loki", "lokireal":
		svcA = impl.NewTimeSeriesInsertService(opts(nil))
		svcB = impl.NewSamplesInsertService(opts(func() { svcA.PlanFlush() }))
		keyA, keyB, tabA, tabB = "tsService", "splService", "time_series", "samples"
	case "tempo":
		var a, b service.IInsertServiceV2
		a = impl.NewTempoTagsInsertService(opts(func() { b.PlanFlush() }))
		b = impl.NewTempoSamplesInsertService(opts(func() { a.PlanFlush() }))
		svcA, svcB = a, b
		keyA, keyB, tabA, tabB = "spanAttrsService", "spansService", "tags", "traces"
	case "profile":
		svcB = impl.NewProfileSamplesInsertService(opts(nil))
		keyB, tabB = "profileService", "profiles"
	default:
		panic(sched.HarnessError{Msg: "unknown kind " + c.Kind})
	}
	var pa *proxy
	if svcA != nil {
		svcA.Init()
	}
	svcB.Init()
	if svcA != nil {
		sched.GoNamed("runA", true, svcA.Run)
		pa = &proxy{svcA, w, tabA}
	}
	sched.GoNamed("runB", true, svcB.Run)
	sched.Quiesce() // start-up of the service loops is not part of the explored space
	pb := &proxy{svcB, w, tabB}

	nextID := 1
	if c.Kind == "lokireal" {
		w.idCols = map[string]bool{"timestamp_ns": true, "string": true}
	}
	for r := 0; r < c.Reqs; r++ {
		st := &ReqStatus{}
		w.Status = append(w.Status, st)
		if c.Kind == "lokireal" {
			// the REAL Loki JSON decoder and parser goroutine (instrumented writer/utils/unmarshal/builder.go) over a body
			// whose first c.Chunks-1 streams each exceed the parser's 1 MiB portion limit, so that the request reaches the
			// handler core in c.Chunks portions; a row is identified by its timestamp (= id) and its line "id<n>;...."
			var body strings.Builder
			body.WriteString(`{"streams":[`)
			for k := 0; k < c.Chunks; k++ {
				if k > 0 {
					body.WriteString(",")
				}
				fmt.Fprintf(&body, `{"stream":{"a":"%d","r":"%d"},"values":[`, k, r)
				pad := 8
				if k < c.Chunks-1 {
					pad = (1<<20)/c.Rows + 64
				}
				for i := 0; i < c.Rows; i++ {
					if i > 0 {
						body.WriteString(",")
					}
					fmt.Fprintf(&body, `["%d","%s%s"]`, nextID, idStr(nextID), strings.Repeat(".", pad))
					st.IDs = append(st.IDs, nextID)
					nextID++
				}
				body.WriteString("]}")
			}
			body.WriteString("]}")
			ctx := context.WithValue(context.Background(), "node", "n1")
			ctx = context.WithValue(ctx, keyA, service.IInsertServiceV2(pa))
			ctx = context.WithValue(ctx, keyB, service.IInsertServiceV2(pb))
			req, _ := http.NewRequestWithContext(ctx, "POST", "/loki/api/v1/push", strings.NewReader(body.String()))
			handler := buildHandler(controllerv1.Parser(unmarshal.DecodePushRequestStringV2))
			sched.GoNamed(fmt.Sprintf("req%d", r), false, func() { serve(w, st, handler, req) })
			continue
		}
		var chunks []*model.ParserResponse
		for k := 0; k < c.Chunks; k++ {
			var idsA, idsB []int
			for i := 0; i < c.Rows; i++ {
				if svcA != nil {
					idsA = append(idsA, nextID)
				}
				idsB = append(idsB, nextID+1)
				nextID += 2
			}
			st.IDs = append(st.IDs, idsA...)
			st.IDs = append(st.IDs, idsB...)
			pr := &model.ParserResponse{}
			if c.Kind == "profile" {
				b := mkProfile(idsB)
				w.idsOf[b] = idsB
				pr.ProfileRequest = b
			} else if c.Kind == "loki" {
				a, b := mkSeries(idsA), mkSamples(idsB)
				w.idsOf[a], w.idsOf[b] = idsA, idsB
				pr.TimeSeriesRequest, pr.SamplesRequest = a, b
			} else {
				a, b := mkTags(idsA), mkSpans(idsB)
				w.idsOf[a], w.idsOf[b] = idsA, idsB
				pr.SpansAttrsRequest, pr.SpansRequest = a, b
			}
			chunks = append(chunks, pr)
		}
		// the parser is a thread of its own, as in production (a goroutine decoding the body and sending chunks on an
		// unbuffered channel); the client may be slow: before a later chunk the environment may delay it until
		// everything else is quiescent (short delay) or beyond the flush interval (long delay)
		rr := r
		parser := func(ctx context.Context, body io.Reader, cache numbercache.ICache[uint64]) chan *model.ParserResponse {
			res := sched.MakeChan[*model.ParserResponse](0)
			sched.GoNamed(fmt.Sprintf("parser%d", rr), false, func() {
				for i, p := range chunks {
					if i > 0 {
						switch sched.Choose("chunk-delayed", 3, true) {
						case 1:
							sched.Sleep(time.Millisecond)
						case 2:
							sched.Sleep(10 * time.Second)
						}
					}
					sched.Send(res, p)
				}
				sched.Close(res)
			})
			return res
		}
		ctx := context.WithValue(context.Background(), "node", "n1")
		if pa != nil {
			ctx = context.WithValue(ctx, keyA, service.IInsertServiceV2(pa))
		}
		ctx = context.WithValue(ctx, keyB, service.IInsertServiceV2(pb))
		req, _ := http.NewRequestWithContext(ctx, "POST", "/push", nil)
		handler := buildHandler(parser)
		sched.GoNamed(fmt.Sprintf("req%d", r), false, func() { serve(w, st, handler, req) })
	}
	if c.Flusher {
		sched.GoNamed("flusher", false, func() {
			svcB.PlanFlush()
		})
	}
	return w
}

// ---------------------------------------------------------------------------------------------------
// oracles

// promiseState reports (pending, err) of a promise after the execution has ended, without blocking and through the
// promise's exported behaviour only: a promise announces completion by closing a channel (whatever the field is
// called; the scheduler keeps the real channel's closed state in sync with its model), and once that channel is
// closed the exported Get cannot block.  No other private detail (flag, sync.Once, field names) is relied upon, so an
// internal refactor of the promise does not break the harness.
func promiseState(p *promise.Promise[uint32]) (bool, error) {
	v := reflect.ValueOf(p).Elem()
	for i := 0; i < v.NumField(); i++ {
		f := v.Field(i)
		if f.Kind() != reflect.Chan {
			continue
		}
		ch := reflect.NewAt(f.Type(), unsafe.Pointer(f.UnsafeAddr())).Elem()
		if ch.IsNil() || ch.Type().ChanDir()&reflect.RecvDir == 0 {
			continue
		}
		x, ok := ch.TryRecv()
		switch {
		case ok:
			panic(sched.HarnessError{Msg: "promise completion channel carries values: the harness cannot probe it without consuming them"})
		case x.IsValid(): // closed
			_, err := p.Get()
			return false, err
		default:
			return true, nil
		}
	}
	panic(sched.HarnessError{Msg: "promise.Promise has no completion channel: adapt inslib.promiseState"})
}

// Which selects the oracle: "C01", "C02" or "" (both).
var Which = ""

func (s *Scenario) Check(obs any, res *sched.Result) (string, []sched.Finding) {
	w := obs.(*World)
	var fs []sched.Finding
	add := func(prop, class, what string) {
		if Which == "" || Which == prop {
			fs = append(fs, sched.Finding{Class: class, What: what})
		}
	}
	if strings.HasPrefix(res.Failure, "panic") {
		add("C01", "panic_in_ingest_core", res.Failure)
		add("C02", "panic_in_ingest_core", res.Failure)
	}
	// ---- C02 O1: every block is rectangular and made of whole submitted rows
	okBlocks := map[int][]*Block{} // id -> blocks containing it
	for _, b := range w.Blocks {
		for _, p := range b.Problems {
			cls := "block_malformed"
			switch {
			case strings.HasPrefix(p, "non-rectangular"):
				cls = "block_not_rectangular"
			case strings.Contains(p, "mixes fields"):
				cls = "row_mixes_requests"
			case strings.HasPrefix(p, "empty block"):
				cls = "empty_block_sent"
			}
			add("C02", cls, fmt.Sprintf("INSERT #%d %q: %s", b.Seq, b.Query, p))
		}
		seen := map[int]bool{}
		for _, id := range b.RowIDs {
			if id < 0 {
				continue
			}
			if seen[id] {
				add("C02", "row_duplicated_in_block", fmt.Sprintf("INSERT #%d contains submitted row %d twice", b.Seq, id))
			}
			seen[id] = true
		}
		for id := range seen {
			okBlocks[id] = append(okBlocks[id], b)
		}
	}
	known := map[int]bool{}
	for _, st := range w.Status {
		for _, id := range st.IDs {
			known[id] = true
		}
	}
	for id := range okBlocks {
		if !known[id] {
			add("C02", "phantom_row", fmt.Sprintf("a block contains row id %d that nobody submitted", id))
		}
	}
	// a pushed row reaches the insert services in exactly one request object (a retry re-submits the same object): the
	// decoder's portions must not share rows
	owner := map[string]any{}
	for _, a := range w.Attempts {
		for _, id := range a.IDs {
			k := fmt.Sprintf("%s/%d", a.Table, id)
			if o, ok := owner[k]; ok && o != a.Req {
				add("C02", "row_in_two_portions_of_a_request", fmt.Sprintf("row %d of table %s was submitted in two different portions (request objects) of the push", id, a.Table))
			}
			owner[k] = a.Req
		}
	}
	// every attempt's rows travel together in one block and the attempt's promise reports that block's outcome
	used := map[int]int{} // id -> number of blocks already matched to earlier attempts
	for _, a := range w.Attempts {
		pending, perr := promiseState(a.Promise)
		if len(a.IDs) == 0 {
			continue
		}
		if !pending && perr != nil && !isInjected(perr) {
			continue // refused before any row was buffered (service stopped / wrong type): no block to match
		}
		k := used[a.IDs[0]]
		var blk *Block
		if bl := okBlocks[a.IDs[0]]; k < len(bl) {
			blk = bl[k]
		}
		for _, id := range a.IDs {
			bl := okBlocks[id]
			var mine *Block
			if used[id] < len(bl) {
				mine = bl[used[id]]
			}
			used[id]++
			if mine != blk {
				add("C02", "request_rows_split_across_blocks", fmt.Sprintf("rows %v of one %s request attempt did not travel in one block", a.IDs, a.Table))
				break
			}
		}
		if pending {
			continue // judged by the liveness part of C01
		}
		if blk == nil {
			if perr == nil {
				add("C02", "rows_left_out_of_reported_block", fmt.Sprintf("%s attempt with rows %v was reported successful but no block contained them", a.Table, a.IDs))
			}
			continue
		}
		if (perr == nil) != (blk.Err == nil) {
			add("C02", "outcome_of_other_block_reported", fmt.Sprintf("%s attempt rows %v: promise says err=%v but its block INSERT #%d ended with err=%v", a.Table, a.IDs, perr, blk.Seq, blk.Err))
		}
	}
	// ---- C01: success only after all rows were in a successful INSERT; exactly one answer
	outcome := []string{}
	for i, st := range w.Status {
		switch {
		case st.Answers == 0:
			outcome = append(outcome, "none")
			add("C01", "request_never_answered", fmt.Sprintf("request %d got no answer (%s; unfinished=%v) although the database kept answering", i, res.Failure, res.Unfinished))
		case st.Answers > 1:
			add("C01", "request_answered_twice", fmt.Sprintf("request %d got %d answers", i, st.Answers))
		case st.OK:
			outcome = append(outcome, "ok")
			for _, id := range st.IDs {
				good, early := false, false
				for _, b := range okBlocks[id] {
					if b.Err == nil && b.DoneSeq != 0 {
						good = true
						if b.DoneSeq > st.AnswerSeq {
							early = true
						} else {
							early = false
							break
						}
					}
				}
				if !good {
					add("C01", "ack_without_successful_insert", fmt.Sprintf("request %d was acknowledged (HTTP %d) but row %d was in no successful INSERT (blocks with it: %d)", i, st.Code, id, len(okBlocks[id])))
					break
				}
				if early {
					add("C01", "ack_before_insert_completed", fmt.Sprintf("request %d was acknowledged before the INSERT carrying row %d had completed", i, id))
					break
				}
			}
		default:
			outcome = append(outcome, "err")
		}
	}
	if res.Failure == "deadlock" || res.Failure == "horizon" {
		// already reported per request above if a request is unanswered; a deadlock among daemons only is not observable
		unanswered := false
		for _, st := range w.Status {
			if st.Answers == 0 {
				unanswered = true
			}
		}
		if !unanswered && len(res.Unfinished) > 0 {
			add("C01", "ingest_thread_stuck", fmt.Sprintf("%s: %v", res.Failure, res.Unfinished))
		}
	}
	nOK, nErr := 0, 0
	for _, b := range w.Blocks {
		if b.Err == nil {
			nOK++
		} else {
			nErr++
		}
	}
	sort.Strings(outcome)
	return fmt.Sprintf("%s|blocks_ok=%d,err=%d|connects=%d", strings.Join(outcome, ","), nOK, nErr, w.Connects), fs
}
