// Stub: the real go.mod is generated per run by bin/genmod.sh (whole body of the repository's go.mod +
// replace github.com/metrico/qryn => $VERIF_REPO) and passed with -modfile.  This file only marks the module
// root and selects the cached toolchain.
module verif

go 1.24.0

toolchain go1.24.2
